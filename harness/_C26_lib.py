"""C26 helpers: real generator objects of the C25 universe cluster, providers over them,
a random tape, and syntactic shapes of the recorded provider divergences."""
from __future__ import annotations

import copy
import random

import pynguin.configuration as config
from harness import _C25_terms as T
from pynguin.analyses.generator import GeneratorProvider, RandomGeneratorProvider
from pynguin.analyses.typesystem import AnyType, Instance, NoneType, ProperType, TupleType, UnionType, is_primitive_type
from pynguin.ga.operators.selection import RandomSelection, RankSelection
from pynguin.utils import randomness
from pynguin.utils.generic.genericaccessibleobject import (
    GenericConstructor,
    GenericEnum,
    GenericFunction,
    GenericMethod,
)

# (kind, owner class name or None, callable name) of the generators used as table entries;
# all of them are produced by the real ``generate_test_cluster`` run on the universe module.
GEN_SPECS = (
    ("ctor", "A", None),  # 0  -> A
    ("method", "A", "to_b"),  # 1  -> B
    ("ctor", "B", None),  # 2  -> B
    ("ctor", "D", None),  # 3  -> D
    ("ctor", "E", None),  # 4  -> E
    ("method", "E", "untyped"),  # 5  -> Any
    ("func", None, "make_b_or_e"),  # 6  -> B | E
    ("method", "C", "maybe_d"),  # 7  -> None | D
    ("func", None, "make_list_b"),  # 8  -> list[B]
    ("method", "A", "siblings"),  # 9  -> list[A]
    ("func", None, "make_set_b"),  # 10 -> set[B]
    ("func", None, "make_dict_b_str"),  # 11 -> dict[B, str]
    ("method", "B", "pair"),  # 12 -> tuple[int, B]
    ("enum", "Color", None),  # 13 -> Color
    ("ctor", "Box", None),  # 14 -> Box (a list subclass in universe 0, a dict subclass in universe 1)
    ("func", None, "make_shape"),  # 15 -> Shape
    ("method", "Stack", "as_list"),  # 16 -> list[int]
    ("func", None, "make_anything"),  # 17 -> Any
    ("func", None, "make_pair_union"),  # 18 -> tuple[int | str, B]   (only used by C26 obligation nested)
)
N_GENS = len(GEN_SPECS)


def _find(uni: T.Universe, spec):
    kind, owner, name = spec
    mod = uni.module
    for gens in uni.cluster.generator_provider.get_all().values():
        for g in gens:
            if kind == "ctor" and isinstance(g, GenericConstructor) and g.owner.raw_type is getattr(mod, owner):
                return g
            if kind == "enum" and isinstance(g, GenericEnum) and g.owner.raw_type is getattr(mod, owner):
                return g
            if kind == "method" and isinstance(g, GenericMethod) and g.owner.raw_type is getattr(mod, owner) \
                    and g.method_name == name:
                return g
            if kind == "func" and isinstance(g, GenericFunction) and g.callable is getattr(mod, name):
                return g
    raise LookupError(spec)


_GENS: dict = {}
_PROVIDERS: dict = {}


def generators(u: int):
    """The table of real generator objects of universe ``u`` (found in the real cluster)."""
    u = 1 if u else 0
    if u not in _GENS:
        with T.untraced():
            uni = T.universe(u)
            _GENS[u] = tuple(_find(uni, s) for s in GEN_SPECS)
    return _GENS[u]


def new_provider(kind: int, ts):
    """kind 0: the fitness/rank based provider, kind 1: the random provider -- constructed
    exactly as ``ModuleTestCluster._setup_generator_selection`` does."""
    if kind == 0:
        return GeneratorProvider(ts, RankSelection(config.configuration.generator_selection.generator_selection_bias))
    return RandomGeneratorProvider(ts, RandomSelection())


def providers(u: int):
    """Both providers over the production type system of universe ``u`` with every table
    generator ``add``ed (built once per process, outside tracing; they are only queried)."""
    u = 1 if u else 0
    if u not in _PROVIDERS:
        with T.untraced():
            ts = T.universe(u).systems[1]
            ps = (new_provider(0, ts), new_provider(1, ts))
            for g in generators(u):
                for p in ps:
                    p.add(g)
            _PROVIDERS[u] = ps
    return _PROVIDERS[u]


def offered(provider, t: ProperType):
    """The set of accessible objects the provider may pick for ``t``."""
    return {x.generator for x in provider._get_generators_for(t)}  # noqa: SLF001


def offered_counts(provider, t: ProperType):
    """Multiset view of the same answer (a stale cache may list a generator twice)."""
    import collections

    return collections.Counter(x.generator for x in provider._get_generators_for(t))  # noqa: SLF001


def clone_generator(g):
    """A new real accessible object with its own (shallow-copied) signature, so that
    ``update_return_type`` on it does not leak into other paths."""
    if isinstance(g, GenericFunction):
        return GenericFunction(g.callable, copy.copy(g.inferred_signature), g.expected_exceptions, g.function_name)
    if isinstance(g, GenericMethod):
        return GenericMethod(g.owner, g.callable, copy.copy(g.inferred_signature), g.expected_exceptions, g.method_name)
    if isinstance(g, GenericConstructor):
        return GenericConstructor(g.owner, copy.copy(g.inferred_signature), g.expected_exceptions)
    return g


class Tape(randomness.Random):
    """``random()`` returns the given values, then 0.0 (F-tape)."""

    def __init__(self, values):
        super().__init__(0)
        self._values = list(values)

    def random(self):
        return self._values.pop(0) if self._values else 0.0

    def getrandbits(self, k):  # randrange / choice go through _randbelow -> getrandbits
        return int(self.random() * (1 << k))


def set_tape(values) -> None:
    randomness.RNG = Tape(values)


# ------------------------------------------------------------------ shapes of the recorded divergences
def undefined_shape(sup: ProperType, sub: ProperType, cause: str) -> bool:
    """Does the recursion of ``subtype_distance(sup, sub)`` reach a pair for which the distance
    is undefined because of a recorded cause although a subtype relation is possible?
    cause 'none':  the supertype position is None (``visit_none_type`` always answers None);
    cause 'tuple': a tuple supertype meets Any or a union (``visit_tuple_type`` only handles tuples)."""
    if isinstance(sup, UnionType):
        return any(undefined_shape(x, sub, cause) for x in sup.items)
    if isinstance(sup, NoneType):
        return cause == "none"
    if isinstance(sup, TupleType) and isinstance(sub, (AnyType, UnionType)):
        return cause == "tuple"
    if isinstance(sub, UnionType):
        return any(undefined_shape(sup, y, cause) for y in sub.items)
    if isinstance(sup, Instance) and isinstance(sub, Instance) and sup.args and sub.args:
        return any(undefined_shape(x, y, cause) for x, y in zip(sup.args, sub.args))
    if isinstance(sup, TupleType) and isinstance(sub, TupleType) and len(sup.args) == len(sub.args):
        return any(undefined_shape(x, y, cause) for x, y in zip(sup.args, sub.args))
    return False


def is_primitive(t: ProperType) -> bool:
    return bool(t.accept(is_primitive_type))
