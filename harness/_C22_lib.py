"""Private helpers of harness/C22.py: selector-built real test suites over corpus/C22_sut.py, the real
minimization pipeline, and the oracle.

What is real: the subject module is instrumented by the real import hook (BRANCH + LINE), test cases are
real ``TestCase`` / ``Statement`` objects over libcst nodes, they are executed by the real
``TestCaseExecutor`` (a thread per execution), the suite is created by the real
``GenerationAlgorithm.create_test_suite`` with the coverage functions the real algorithm factory
configures, assertions are produced by the real ``AssertionGenerator`` (and then thinned out by a
selector, as mutation analysis / assertion minimization would), and minimization is the real
``pynguin.generator._minimize`` driven by ``configuration.test_case_output.minimization``.

The oracle never looks at cached values of the chromosomes under test: it clones the test cases before and
takes the test cases after minimization, executes both lists (i) with a FRESH real executor, reading the
covered line ids / branch outcomes off the execution traces and the values of fresh real coverage
functions, and (ii) on an UNINSTRUMENTED copy of the subject module under ``sys.monitoring`` (LINE / BRANCH
events of the interpreter).  Statement identity is decided on rendered source text with ``ast``.
"""
from __future__ import annotations

import ast
import importlib
import itertools
import logging
import os
import sys
import types

import libcst as cst

import pynguin.assertion.assertion as ass
import pynguin.assertion.assertiongenerator as ag
import pynguin.configuration as config
import pynguin.ga.computations as ff
import pynguin.ga.generationalgorithmfactory as gaf
import pynguin.ga.testcasechromosome as tcc
import pynguin.generator as gen
import pynguin.testcase.testcase as tc
from pynguin.analyses.constants import EmptyConstantProvider
from pynguin.analyses.module import generate_test_cluster
from pynguin.instrumentation.machinery import install_import_hook
from pynguin.instrumentation.tracer import SubjectProperties
from pynguin.testcase.execution import TestCaseExecutor

ROOT = os.path.dirname(os.path.dirname(os.path.abspath(__file__)))
MODULE = "corpus.C22_sut"
ALIAS = "C22_sut_"
PATH = os.path.join(ROOT, "corpus", "C22_sut.py")
LAST = [""]
STATS = {"runs": 0, "removed": 0, "raised": 0}

STRATEGIES = (config.MinimizationStrategy.CASE, config.MinimizationStrategy.SUITE, config.MinimizationStrategy.COMBINED)
DIRECTIONS = (config.MinimizationDirection.FORWARD, config.MinimizationDirection.BACKWARD)


def fail(msg: str) -> bool:
    LAST[0] = msg
    if os.environ.get("C22_DEBUG"):
        print("C22 fail:", msg, file=sys.stderr)
    return False


def tracing_active() -> bool:
    try:
        from crosshair.statespace import optional_context_statespace
    except ImportError:
        return False
    return optional_context_statespace() is not None


def untraced(fn, *args):
    """Call ``fn(*args)`` on realised arguments with CrossHair's tracing switched off (the executor runs
    every test case in a thread of its own; libcst, compile/exec are C boundaries).  Plain call outside
    CrossHair."""
    if not tracing_active():
        return fn(*args)
    from crosshair.core import deep_realize
    from crosshair.tracers import NoTracing

    args = deep_realize(args)
    with NoTracing():
        return fn(*args)


# =============================================================================== configuration
def configure(strategy: int = 0, direction: int = 1) -> None:
    """Everything the pipeline reads from the global configuration, set on every path."""
    c = config.configuration
    c.module_name = MODULE
    c.project_path = ROOT
    c.subprocess = False
    c.algorithm = config.Algorithm.MOSA
    c.statistics_output.coverage_metrics = [config.CoverageMetric.BRANCH, config.CoverageMetric.LINE]
    c.statistics_output.statistics_backend = config.StatisticsBackend.NONE
    out = c.test_case_output
    out.post_process = True
    out.assertion_generation = config.AssertionGenerator.SIMPLE
    out.filter_assertions_in_subprocess = False
    out.allow_stale_assertions = False
    out.max_length_test_case = 2500
    out.minimization.test_case_minimization_strategy = STRATEGIES[strategy]
    out.minimization.test_case_minimization_direction = DIRECTIONS[direction]


# =============================================================================== the analysed subject
class World:
    """One per process: the subject instrumented by the real import hook, the real executor, the real test
    cluster and the real search algorithm object (only its coverage functions and ``create_test_suite`` are
    used); plus an uninstrumented copy of the subject for the interpreter-level ground truth."""

    def __init__(self):
        logging.disable(logging.CRITICAL)  # the pipeline logs every coverage change / failure
        configure()
        sys.modules.pop(MODULE, None)
        self.sp = SubjectProperties()
        hook = install_import_hook(MODULE, self.sp)
        try:
            with self.sp.instrumentation_tracer:
                self.module = importlib.import_module(MODULE)
        finally:
            hook.uninstall()
        self.executor = TestCaseExecutor(self.sp)
        with self.sp.instrumentation_tracer.temporarily_disable():
            self.cluster = generate_test_cluster(MODULE)
        self.algorithm = gaf.TestSuiteGenerationAlgorithmFactory(
            self.executor, self.cluster, EmptyConstantProvider()).get_search_algorithm()
        kinds = [type(f) for f in self.algorithm.test_suite_coverage_functions]
        assert kinds == [ff.TestSuiteLineCoverageFunction, ff.TestSuiteBranchCoverageFunction], kinds
        # ---- uninstrumented copy
        src = open(PATH).read()
        self.plain_code = compile(src, PATH, "exec")
        self.plain = types.ModuleType("C22_sut_plain")
        exec(self.plain_code, self.plain.__dict__)  # noqa: S102
        self.plain_codes = {id(c): c for c in _code_objects(self.plain_code)}
        self._monitoring = False

    # ------------------------------------------------------------------ ground truth
    def _ensure_monitoring(self):
        if self._monitoring:
            return
        mon = sys.monitoring
        self.tool = next(t for t in (3, 4, 5, 2, 1) if mon.get_tool(t) is None)
        mon.use_tool_id(self.tool, "verif-C22")
        ev = mon.events
        mon.register_callback(self.tool, ev.LINE, self._on_line)
        mon.register_callback(self.tool, ev.BRANCH, self._on_branch)
        for c in self.plain_codes.values():
            mon.set_local_events(self.tool, c, ev.LINE | ev.BRANCH)
        self._monitoring = True
        self._lines: set | None = None
        self._branches: set | None = None

    def _on_line(self, code, line):
        if self._lines is not None and id(code) in self.plain_codes:
            self._lines.add(line)

    def _on_branch(self, code, src, dst):
        if self._branches is not None and id(code) in self.plain_codes:
            self._branches.add((code.co_name, code.co_firstlineno, src, dst))

    def truth(self, codes):
        """``codes``: per test case the list of its statements' source texts.  Every test case is run the way
        the executor runs it (one namespace, statement by statement, stop at the first exception) against the
        uninstrumented subject.  Returns (lines, branch events) the interpreter reports for the subject."""
        self._ensure_monitoring()
        lines, branches = set(), set()
        for stmts in codes:
            namespace = {"__builtins__": __builtins__}
            namespace.update(vars(self.plain))
            namespace[ALIAS] = self.plain
            compiled = [compile(s, "<C22 test>", "exec") for s in stmts]
            self._lines, self._branches = lines, branches
            try:
                for code in compiled:
                    try:
                        exec(code, namespace)  # noqa: S102
                    except Exception:  # noqa: BLE001
                        break
            finally:
                self._lines = self._branches = None
        return frozenset(lines), frozenset(branches)


def _code_objects(code):
    yield code
    for c in code.co_consts:
        if isinstance(c, types.CodeType):
            yield from _code_objects(c)


_WORLD: dict = {}


def world() -> World:
    if "w" not in _WORLD:
        _WORLD["w"] = untraced(World)
    return _WORLD["w"]


# =============================================================================== selector-built test cases
KINDS = ("int3", "int9", "classify", "check", "new", "bump", "step", "size", "absorb", "intm2", "str")
K = {name: i for i, name in enumerate(KINDS)}
_NODES: dict = {}


def _node(src: str):
    if src not in _NODES:
        _NODES[src] = cst.parse_statement(src + "\n")
    return _NODES[src]


def calls_subject(kinds) -> bool:
    """Does the test case execute any code of the subject?  (a test case of literals only does not)"""
    return any(KINDS[k] not in ("int3", "int9", "intm2", "str") for k in kinds)


def statement_sources(kinds):
    """Decode a tuple of statement kinds into [(source, bound name or None, bound type name)].  A call reads the
    NEAREST earlier variable of the type it needs (``absorb``: the two nearest counters) and falls back to a
    literal / an inline constructor call when there is none, so that every kind sequence is a valid test case."""
    ints, strs, counters = [], [], []
    out = []
    for i, kind in enumerate(kinds):
        name = f"var_{i}"
        k = KINDS[kind]
        if k in ("int3", "int9", "intm2"):
            out.append((f"{name} = {dict(int3=3, int9=9, intm2=-2)[k]}", name, "int"))
            ints.append(name)
        elif k == "str":
            out.append((f"{name} = 'ab'", name, "str"))
            strs.append(name)
        elif k == "classify":
            out.append((f"{name} = {ALIAS}.classify(x = {ints[-1] if ints else '0'})", name, "str"))
            strs.append(name)
        elif k == "check":
            out.append((f"{name} = {ALIAS}.check(x = {ints[-1] if ints else '1'})", name, "int"))
            ints.append(name)
        elif k == "size":
            out.append((f"{name} = {ALIAS}.size(s = {strs[-1] if strs else repr('a')})", name, "str"))
            strs.append(name)
        elif k == "new":
            out.append((f"{name} = {ALIAS}.Counter()", name, "Counter"))
            counters.append(name)
        elif k == "bump":
            recv = counters[-1] if counters else f"{ALIAS}.Counter(start = 1)"
            out.append((f"{recv}.bump()", None, None))
        elif k == "step":
            recv = counters[-1] if counters else f"{ALIAS}.Counter(start = 1)"
            out.append((f"{name} = {recv}.step()", name, "str"))
            strs.append(name)
        else:  # absorb
            recv = counters[-1] if counters else f"{ALIAS}.Counter()"
            other = counters[-2] if len(counters) >= 2 else (counters[-1] if counters else f"{ALIAS}.Counter(start = 3)")
            out.append((f"{name} = {recv}.absorb(other = {other})", name, "int"))
            ints.append(name)
    return out


def build_test(kinds):
    w = world()
    types_ = {"int": int, "str": str, "Counter": w.module.Counter, None: None}
    t = tc.TestCase()
    for src, name, tname in statement_sources(kinds):
        t.add_statement(tc.Statement(node=_node(src), bound_variable=name, bound_type=types_[tname]))
        t.next_var_name()
    return t


def build_suite(tests):
    """The state a search leaves behind: a suite made by the real ``create_test_suite`` whose coverage values
    have been queried (``_track_search_metrics``), so every test case chromosome holds its execution result."""
    w = world()
    suite = w.algorithm.create_test_suite([tcc.TestCaseChromosome(test_case=build_test(k)) for k in tests])
    for function in w.algorithm.test_suite_coverage_functions:
        suite.get_coverage_for(function)
    return suite


def add_assertions(suite, am: int) -> None:
    """am 0: no assertions.  Otherwise the real AssertionGenerator runs on the suite (``_generate_assertions`` with
    the SIMPLE generator) and a selector thins its output out, as mutation analysis / assertion minimization do:
    1 everything; 2 only the assertions of the last statement of each test case that has any; 3 only those of the
    first one; 4 only assertions on a field of a variable (``var_0.n``, the watch-list oracle), on module fields,
    and exception assertions."""
    if am == 0:
        return
    w = world()
    suite.accept(ag.AssertionGenerator(w.executor))
    for chromosome in suite.test_case_chromosomes:
        stmts = chromosome.test_case.statements()
        holders = [s for s in stmts if s.assertions]
        for s in stmts:
            if am == 4:
                s.assertions[:] = [a for a in s.assertions
                                   if isinstance(a, ass.ExceptionAssertion) or "." in getattr(a, "source", "")]
            elif am == 2 and holders and s is not holders[-1]:
                s.assertions.clear()
            elif am == 3 and holders and s is not holders[0]:
                s.assertions.clear()


# =============================================================================== views used by the oracle
def _split(node_code: str):
    """(value expression text, bound name or None) of one rendered simple statement."""
    tree = ast.parse(node_code)
    if len(tree.body) != 1:
        raise ValueError(f"not a single statement: {node_code!r}")
    st = tree.body[0]
    if isinstance(st, ast.Assign) and len(st.targets) == 1 and isinstance(st.targets[0], ast.Name):
        return ast.unparse(st.value), st.targets[0].id
    if isinstance(st, ast.AnnAssign) and isinstance(st.target, ast.Name) and st.value is not None:
        return ast.unparse(st.value), st.target.id
    if isinstance(st, ast.Expr):
        return ast.unparse(st.value), None
    raise ValueError(f"unexpected statement shape: {node_code!r}")


def view(test_case):
    """Per statement: dict(code, shape, bound, asserts=[repr], roots={root names of reference assertions})."""
    out = []
    for st in test_case.statements():
        code = cst.Module(body=[st.node]).code.strip()
        shape, bound = _split(code)
        roots = {a.source.split(".", 1)[0] for a in st.assertions if isinstance(a, ass.ReferenceAssertion)}
        out.append({"code": code, "shape": shape, "bound": bound, "asserts": sorted(repr(a) for a in st.assertions), "roots": roots})
    return out


def _embeds(mini, orig, j=0, i=0):
    """Is ``mini`` obtainable from ``orig`` by deleting statements and dropping bindings?  (order-preserving
    embedding; equal value expression; a kept binding binds the same name; no assertion that was not attached)"""
    if j == len(mini):
        return True
    for k in range(i, len(orig)):
        m, o = mini[j], orig[k]
        if m["shape"] == o["shape"] and (m["bound"] is None or m["bound"] == o["bound"]) \
                and all(m["asserts"].count(a) <= o["asserts"].count(a) for a in m["asserts"]) \
                and _embeds(mini, orig, j + 1, k + 1):
            return True
    return False


def asserted_variables(orig):
    """Variables of an (original) test case that an assertion reads: root names of reference assertions that
    are bound by a statement of the test case."""
    bound = {s["bound"] for s in orig if s["bound"] is not None}
    roots = set()
    for s in orig:
        roots |= s["roots"]
    return roots & bound


def check_statements(before, after):
    """``before`` / ``after``: lists of views.  True iff there is a one-to-one assignment of the test cases after
    minimization to test cases before it such that each is embedded in its original (``_embeds``).  Returns
    the list of admissible assignments (tuples: index into ``before`` per test case of ``after``)."""
    if len(after) > len(before):
        return []
    return [perm for perm in itertools.permutations(range(len(before)), len(after))
            if all(_embeds(after[j], before[perm[j]]) for j in range(len(after)))]


def keeps_asserted(before, after, perm) -> bool:
    """Every statement of the original suite whose variable is asserted on is still there, with its binding."""
    image = {perm[j]: after[j] for j in range(len(after))}
    for i, orig in enumerate(before):
        wanted = asserted_variables(orig)
        if not wanted:
            continue
        if i not in image:
            return False
        if not wanted <= {s["bound"] for s in image[i]}:
            return False
    return True


# =============================================================================== coverage, measured afresh
_MEASURED: dict = {}


def measure(test_cases):
    """Fresh real executor, fresh chromosomes (clones), fresh real coverage functions: every test case is executed
    once.  Returns (line ids, branch outcomes, line coverage value, branch coverage value).  Results are remembered
    per rendered source text of the list of test cases (the subject has no state that outlives an execution)."""
    key = tuple(t.to_code() for t in test_cases)
    if key in _MEASURED:
        return _MEASURED[key]
    import pynguin.ga.testsuitechromosome as tsc

    w = world()
    executor = TestCaseExecutor(w.sp)
    suite = tsc.TestSuiteChromosome()
    for t in test_cases:
        suite.add_test_case_chromosome(tcc.TestCaseChromosome(test_case=t.clone()))
    line_value = ff.TestSuiteLineCoverageFunction(executor).compute_coverage(suite)
    branch_value = ff.TestSuiteBranchCoverageFunction(executor).compute_coverage(suite)
    lines, outcomes = set(), set()
    for chromosome in suite.test_case_chromosomes:
        trace = chromosome.get_last_execution_result().execution_trace
        lines |= set(trace.covered_line_ids)
        outcomes |= {("code", c) for c in trace.executed_code_objects if c in w.sp.branch_less_code_objects}
        outcomes |= {("pred", p, True) for p, d in trace.true_distances.items() if d == 0.0}
        outcomes |= {("pred", p, False) for p, d in trace.false_distances.items() if d == 0.0}
    _MEASURED[key] = (frozenset(lines), frozenset(outcomes), line_value, branch_value)
    return _MEASURED[key]


def minimize(suite, strategy: int, direction: int):
    """``generator._run``: ``_minimize(generation_result, algorithm)`` inside try/except Exception."""
    configure(strategy, direction)
    try:
        gen._minimize(suite, world().algorithm)  # noqa: SLF001
    except Exception as e:  # noqa: BLE001
        return e
    return None


# =============================================================================== one case
ASPECTS = ("values", "goals", "truth", "statements", "asserted")


def diagnose(tests, am: int, strategy: int, direction: int, coverage: bool = True, statements: bool = True) -> dict:
    """Runs one case and returns, per aspect of the property, None (holds) or a description of the violation:
    values     -- the values of the real line / branch coverage functions, computed afresh, are unchanged,
    goals      -- the covered line ids / branch outcomes in the traces of a fresh real executor are unchanged,
    truth      -- the lines / branch events the interpreter itself reports on the uninstrumented subject are unchanged,
    statements -- every minimized test case is embedded in a test case of the original suite (one-to-one),
    asserted   -- every statement whose variable an assertion reads is still there with its binding.
    Plus 'raised' (the exception that escaped ``_minimize``, informational) and 'what' (rendered before/after)."""
    STATS["runs"] += 1
    configure(strategy, direction)
    suite = build_suite(tests)
    add_assertions(suite, am)
    originals = [c.test_case.clone() for c in suite.test_case_chromosomes]
    before = [view(t) for t in originals]
    raised = minimize(suite, strategy, direction)
    finals = [c.test_case for c in suite.test_case_chromosomes]
    out = dict.fromkeys(ASPECTS)
    out["raised"] = None if raised is None else f"{type(raised).__name__}: {raised}"
    try:
        after = [view(t) for t in finals]
    except Exception as e:  # noqa: BLE001
        out["what"] = f"{[[s['code'] for s in t] for t in before]} -> ?"
        out["statements"] = f"minimized suite does not render: {type(e).__name__}: {e}"
        return out
    out["what"] = (f"{STRATEGIES[strategy].value}/{DIRECTIONS[direction].value} on {[[s['code'] for s in t] for t in before]} "
                   f"(asserted: {[sorted(asserted_variables(t)) for t in before]}) -> {[[s['code'] for s in t] for t in after]}")
    if sum(len(t) for t in after) < sum(len(t) for t in before):
        STATS["removed"] += 1
    if raised is not None:
        STATS["raised"] += 1
    if coverage:
        _diagnose_coverage(out, originals, finals, before, after)
    if statements:
        perms = check_statements(before, after)
        if not perms:
            out["statements"] = "the minimized suite is not made of statements of the original"
        elif not any(keeps_asserted(before, after, p) for p in perms):
            out["asserted"] = "a statement whose variable is asserted on was removed"
    return out


def _diagnose_coverage(out, originals, finals, before, after) -> None:
    l0, o0, lv0, bv0 = measure(originals)
    l1, o1, lv1, bv1 = measure(finals)
    if lv0 != lv1 or bv0 != bv1:
        out["values"] = f"coverage values changed: line {lv0} -> {lv1}, branch {bv0} -> {bv1}"
    if l0 != l1 or o0 != o1:
        sp = world().sp
        out["goals"] = (f"covered goals changed: lines lost {sorted(sp.lineids_to_linenos(l0 - l1))} gained "
                        f"{sorted(sp.lineids_to_linenos(l1 - l0))}, branch outcomes lost {sorted(map(str, o0 - o1))} gained "
                        f"{sorted(map(str, o1 - o0))}")
    tl0, tb0 = world().truth([[s["code"] for s in t] for t in before])
    tl1, tb1 = world().truth([[s["code"] for s in t] for t in after])
    if tl0 != tl1 or tb0 != tb1:
        out["truth"] = (f"the interpreter reports other lines/branches: lines lost {sorted(tl0 - tl1)} gained {sorted(tl1 - tl0)}, "
                        f"branches lost {sorted(tb0 - tb1)} gained {sorted(tb1 - tb0)}")


COVERAGE = ("values", "goals", "truth")
STATEMENTS = ("statements", "asserted")


def run_case(tests, am: int, strategy: int, direction: int, aspects=ASPECTS) -> bool:
    d = diagnose(tests, am, strategy, direction, coverage=any(a in COVERAGE for a in aspects),
                 statements=any(a in STATEMENTS for a in aspects))
    for a in aspects:
        if d[a] is not None:
            return fail(f"{d[a]}; {d['what']}")
    return True
