"""C35 — coverage reports agree with the computed coverage.

F-trace harnesses over the *whole* registry of the really instrumented module ``corpus/C35_small.py``
(3 predicates — two of them on one source line that is also a ``def`` line —, 4 code objects of which
2 are branch-less, 8 line ids).  A stub suite of one or two chromosomes carries symbolic traces; the real
``get_coverage_report`` is called with a symbolic metrics subset and, on its result, the real
``render_xml_coverage_report`` (into an in-memory file).  A second module, ``corpus/C35_lambda.py``, has one
source line that is a ``def`` line, holds a predicate and starts a branch-less code object (a lambda), so that
the per-line sum is also decided for a line carrying both kinds of branch goals (obligation ``lambda_line``).

Oracle (from the decoded selector state only):
* totals: ``branch_coverage`` / ``line_coverage`` equal the tracked coverage (``compute_branch_coverage`` /
  ``compute_line_coverage`` of the merged trace) *and* covered/existing of the report's own totals, which
  equal the number of taken branches / entered branch-less code objects / visited lines;
* the per-line annotations sum to the totals, and each line's annotation shows exactly what happened on
  that line (branches of the predicates on that line, branch-less code objects starting there, line
  covered iff visited);
* the Cobertura XML carries the same totals and per-line facts.
"""
from __future__ import annotations

import datetime
import io
import xml.etree.ElementTree as ET

import pynguin.configuration as config
import pynguin.ga.fitness_metrics as fm
import pynguin.utils.report as rep
from engines.prelude import pick, reach
from harness import _ftrace as ft

PROPERTY = "C35"
class _Ctx:
    """One instrumented corpus module: its whole registry and the line tables the oracle uses."""

    def __init__(self, module):
        self.MODULE = module
        self.V = V = ft.View(None, module_name=module)
        self.N_SOURCE = len(open(V.module.__file__).read().splitlines())
        self.PRED_LINE = {p: V.sp.existing_predicates[p].line_no for p in V.preds}
        self.CO_LINE = {c: V.sp.existing_code_objects[c].code_object.co_firstlineno for c in V.branchless}
        self.LINE_NO = {l: V.sp.existing_lines[l].line_number for l in V.lines}


# 0: three predicates (two on one def line), two branch-less code objects, 8 lines
# 1: one line that is a def line, a predicate line AND the first line of a branch-less code object (lambda)
CTX = (_Ctx("C35_small"), _Ctx("C35_lambda"))
V = CTX[0].V
assert len(V.preds) == 3 and len(V.code_objects) == 4 and len(V.branchless) == 2 and len(V.lines) == 8, V
_V1 = CTX[1].V
assert len(_V1.preds) == 1 and len(_V1.branchless) == 2 and len(_V1.lines) == 2, _V1
assert set(CTX[1].PRED_LINE.values()) & set(CTX[1].CO_LINE.values()), "lambda line must also hold the predicate"
METRICS = (
    set(),
    {config.CoverageMetric.BRANCH},
    {config.CoverageMetric.LINE},
    {config.CoverageMetric.BRANCH, config.CoverageMetric.LINE},
    {config.CoverageMetric.BRANCH, config.CoverageMetric.LINE, config.CoverageMetric.CHECKED},
)
TS = datetime.datetime(2024, 1, 2, 3, 4, 5)


class _MemFile(io.StringIO):
    def close(self):  # keep the content readable after the ``with`` block
        pass


class _MemPath:
    """Stands in for the report ``Path``: ``open()`` hands out an in-memory text file."""

    def __init__(self):
        self.file = _MemFile()

    def open(self, mode="w", encoding=None):  # noqa: ARG002
        return self.file


def _second_trace(kind):
    """The optional second chromosome's trace: 0 none, 1 empty trace, 2 takes predicate 0's true branch once and
    visits line id 4, 3 enters both branch-less code objects and takes predicate 2 both ways."""
    p0, p1, p2 = V.preds
    if kind == 2:
        return [(1, 0.0, 2.5), None, None], [False, False], {4}
    return [None, None, (2, 0.0, 0.0)], [True, True], set()


def _check(m, sts, bl_bits, lbits, second, ci=0) -> bool:
    ctx = CTX[ci]
    V, MODULE, PRED_LINE, CO_LINE, LINE_NO = ctx.V, ctx.MODULE, ctx.PRED_LINE, ctx.CO_LINE, ctx.LINE_NO
    config.configuration.module_name = MODULE
    metrics = pick(METRICS, m)
    co_bits = [c in V.branchless and bl_bits[V.branchless.index(c)] for c in V.code_objects]
    traces = [ft.build_trace(V, sts, co_bits, lbits)]
    line_on = [bool(b) for b in lbits]
    if second == 1:
        traces.append(ft.build_trace(V, [None] * len(V.preds), [False] * len(V.code_objects)))
    elif second >= 2:
        sts2, bl2, lines2 = _second_trace(second)
        co2 = [c in V.branchless and bl2[V.branchless.index(c)] for c in V.code_objects]
        traces.append(ft.build_trace(V, sts2, co2, [l in lines2 for l in V.lines]))
        sts = [ft.merge_state(a, b) for a, b in zip(sts, sts2)]
        bl_bits = [a or b for a, b in zip(bl_bits, bl2)]
        line_on = [a or (l in lines2) for a, l in zip(line_on, V.lines)]
    suite = ft.suite_of(*traces)
    report = rep.get_coverage_report(suite, V.sp, metrics)

    with_branch = config.CoverageMetric.BRANCH in metrics
    with_line = config.CoverageMetric.LINE in metrics
    # ---- expected facts, per source line
    exp_br = {}  # line -> [covered, existing]
    exp_bl = {}
    exp_ln = {}
    if with_branch:
        for p, st in zip(V.preds, sts):
            e = exp_br.setdefault(PRED_LINE[p], [0, 0])
            e[1] += 2
            e[0] += (1 if ft.taken_true(st) else 0) + (1 if ft.taken_false(st) else 0)
        for c, b in zip(V.branchless, bl_bits):
            e = exp_bl.setdefault(CO_LINE[c], [0, 0])
            e[1] += 1
            e[0] += 1 if b else 0
    if with_line:
        for l, b in zip(V.lines, line_on):
            exp_ln[LINE_NO[l]] = [1 if b else 0, 1]
    merged = fm.analyze_results([c.get_last_execution_result() for c in suite.test_case_chromosomes])
    tracked_b = fm.compute_branch_coverage(merged, V.sp) if with_branch else None
    tracked_l = fm.compute_line_coverage(merged, V.sp) if with_line else None
    path = _MemPath()
    rep.render_xml_coverage_report(report, path, TS)
    text = path.file.getvalue()
    facts = (ci, with_branch, with_line, exp_br, exp_bl, exp_ln, tracked_b, tracked_l)
    return ft.untraced(_compare, report, text, facts)


def _compare(report, text, facts) -> bool:
    """Pure comparison of the report / XML text with the expected per-line facts (all concrete)."""
    ci, with_branch, with_line, exp_br, exp_bl, exp_ln, tracked_b, tracked_l = facts
    MODULE, N_SOURCE = CTX[ci].MODULE, CTX[ci].N_SOURCE
    tot_br = [sum(e[0] for e in exp_br.values()), sum(e[1] for e in exp_br.values())]
    tot_bl = [sum(e[0] for e in exp_bl.values()), sum(e[1] for e in exp_bl.values())]
    tot_ln = [sum(e[0] for e in exp_ln.values()), sum(e[1] for e in exp_ln.values())]
    # ---- totals
    ok = report.module == MODULE and len(report.source) == N_SOURCE and len(report.line_annotations) == N_SOURCE
    ok = ok and [report.branches.covered, report.branches.existing] == tot_br
    ok = ok and [report.branchless_code_objects.covered, report.branchless_code_objects.existing] == tot_bl
    ok = ok and [report.lines.covered, report.lines.existing] == tot_ln
    if with_branch:
        ok = ok and report.branch_coverage == tracked_b
        ok = ok and report.branch_coverage == (tot_br[0] + tot_bl[0]) / (tot_br[1] + tot_bl[1])
    else:
        ok = ok and report.branch_coverage is None
    if with_line:
        ok = ok and report.line_coverage == tracked_l
        ok = ok and report.line_coverage == tot_ln[0] / tot_ln[1]
    else:
        ok = ok and report.line_coverage is None
    if not ok:
        return False

    # ---- per-line annotations: exact content, and they sum to the totals
    s_br, s_bl, s_ln, s_tot = [0, 0], [0, 0], [0, 0], [0, 0]
    for idx, ann in enumerate(report.line_annotations):
        no = idx + 1
        br, bl, ln = exp_br.get(no, [0, 0]), exp_bl.get(no, [0, 0]), exp_ln.get(no, [0, 0])
        if ann.line_no != no:
            return False
        if [ann.branches.covered, ann.branches.existing] != br:
            return False
        if [ann.branchless_code_objects.covered, ann.branchless_code_objects.existing] != bl:
            return False
        if [ann.lines.covered, ann.lines.existing] != ln:
            return False
        if [ann.total.covered, ann.total.existing] != [br[0] + bl[0] + ln[0], br[1] + bl[1] + ln[1]]:
            return False
        msg = ann.message()
        if ln[1]:
            shown_covered = f"Line {no} covered" in msg
            shown_not = f"Line {no} not covered" in msg
            if shown_covered != (ln[0] == 1) or shown_not != (ln[0] == 0):
                return False
        elif "Line" in msg:
            return False
        if (f"{br[0]}/{br[1]} branches covered" in msg) != (br[1] > 0):
            return False
        for acc, e in ((s_br, ann.branches), (s_bl, ann.branchless_code_objects), (s_ln, ann.lines), (s_tot, ann.total)):
            acc[0] += e.covered
            acc[1] += e.existing
    if s_br != tot_br or s_bl != tot_bl or s_ln != tot_ln:
        return False
    if s_tot != [tot_br[0] + tot_bl[0] + tot_ln[0], tot_br[1] + tot_bl[1] + tot_ln[1]]:
        return False

    # ---- Cobertura XML
    head = '<?xml version="1.0" encoding="UTF-8"?>'
    if not text.startswith(head) or "<!DOCTYPE coverage" not in text:
        return False
    root = ET.fromstring(text[text.index("<coverage"):])
    at = root.attrib
    ok = at["line-rate"] == f"{report.line_coverage}" and at["branch-rate"] == f"{report.branch_coverage}"
    ok = ok and at["lines-covered"] == str(tot_ln[0]) and at["lines-valid"] == str(tot_ln[1])
    ok = ok and at["branches-covered"] == str(tot_br[0] + tot_bl[0]) and at["branches-valid"] == str(tot_br[1] + tot_bl[1])
    cls = root.find("packages/package/classes/class")
    ok = ok and cls is not None and cls.attrib["filename"] == MODULE and cls.attrib["line-rate"] == at["line-rate"]
    ok = ok and cls.attrib["branch-rate"] == at["branch-rate"] and root.find("sources/source").text == MODULE
    if not ok:
        return False
    seen = {}
    for el in cls.find("lines"):
        seen[int(el.attrib["number"])] = el.attrib
    for no in range(1, N_SOURCE + 1):
        br, bl, ln = exp_br.get(no, [0, 0]), exp_bl.get(no, [0, 0]), exp_ln.get(no, [0, 0])
        exists = br[1] + bl[1] + ln[1] > 0
        if (no in seen) != exists:
            return False
        if not exists:
            continue
        a = seen[no]
        cov_b, ex_b = br[0] + bl[0], br[1] + bl[1]
        want_hits = "1" if (ln[0] > 0 or cov_b > 0) else "0"
        if a["hits"] != want_hits or a["branch"] != ("true" if ex_b > 0 else "false"):
            return False
        if ex_b > 0:
            if not a.get("condition-coverage", "").endswith(f"({cov_b}/{ex_b})"):
                return False
            if not a["condition-coverage"].startswith(f"{cov_b / ex_b:.0%}"):
                return False
        elif "condition-coverage" in a:
            return False
    return len(seen) == sum(1 for no in range(1, N_SOURCE + 1)
                            if exp_br.get(no, [0, 0])[1] + exp_bl.get(no, [0, 0])[1] + exp_ln.get(no, [0, 0])[1] > 0)


def h_report(m: int, second: int, s0: int, n0: int, a0: int, k0: bool, s1: int, n1: int, a1: int, k1: bool,
             s2: int, n2: int, a2: int, k2: bool, b0: bool, b1: bool,
             l0: bool, l1: bool, l2: bool, l3: bool, l4: bool, l5: bool, l6: bool, l7: bool) -> bool:
    """
    pre: 0 <= m <= 4 and 0 <= second <= 3
    pre: 0 <= s0 <= 3 and 1 <= n0 <= 1000 and 1 <= a0 <= 2**60
    pre: 0 <= s1 <= 3 and 1 <= n1 <= 1000 and 1 <= a1 <= 2**60
    pre: 0 <= s2 <= 3 and 1 <= n2 <= 1000 and 1 <= a2 <= 2**60
    post: _
    """
    sts = [ft.pred_state(s0, n0, a0 / 16, k0), ft.pred_state(s1, n1, a1 / 16, k1), ft.pred_state(s2, n2, a2 / 16, k2)]
    return reach(_check(m, sts, [b0, b1], [l0, l1, l2, l3, l4, l5, l6, l7], second))


def h_report_lambda(m: int, second: int, s0: int, n0: int, a0: int, k0: bool, b0: bool, b1: bool, l0: bool, l1: bool) -> bool:
    """
    pre: 0 <= m <= 4 and 0 <= second <= 1
    pre: 0 <= s0 <= 3 and 1 <= n0 <= 1000 and 1 <= a0 <= 2**60
    post: _
    """
    # corpus/C35_lambda.py: the line of choose() holds its predicate, starts the branch-less lambda and is a def line
    sts = [ft.pred_state(s0, n0, a0 / 16, k0)]
    return reach(_check(m, sts, [b0, b1], [l0, l1], second, ci=1))


META = {
    "level": "model_checking",
    "claim": "Bounded model checking by symbolic execution of the real get_coverage_report / _get_line_to_branch_coverage / "
             "_get_line_to_branchless_code_object_coverage / LineAnnotation / render_xml_coverage_report over F-trace: for the "
             "whole registry of a really instrumented module (3 predicates, two on one line that is also a def line; 2 "
             "branch-less code objects; 8 lines), every predicate state (not executed / always-true / always-false / both "
             "ways, open branch at any positive distance a/16 or inf, 1..1000 hits), every subset of entered branch-less code "
             "objects and visited lines (in the bounds below), suites of one or two chromosomes and every metrics subset: the "
             "report's branch/line coverage equals the tracked coverage and covered/existing of its own totals, the totals "
             "equal the numbers of taken branches / entered code objects / visited lines, the per-line annotations carry "
             "exactly the facts of their line and sum to the totals, a line is shown covered iff visited, and the Cobertura XML "
             "carries the same totals and per-line facts.",
    "note": "The report is assembled from a stub suite (traces are built, not recorded). HTML rendering (jinja2/pygments) is "
            "outside. Trusts CPython 3.12.1 (inspect.getsourcelines, xml.etree), CrossHair's models, z3.",
    "functions": ["pynguin.utils.report.get_coverage_report", "_get_line_to_branch_coverage",
                  "_get_line_to_branchless_code_object_coverage", "_get_line_annotations_for_branch_coverage",
                  "CoverageEntry.__add__", "LineAnnotation.__add__/message", "render_xml_coverage_report",
                  "pynguin.ga.fitness_metrics.compute_branch_coverage/compute_line_coverage/analyze_results",
                  "SubjectProperties.lineids_to_linenos"],
    "bounds": {"module": "corpus/C35_small.py (3 predicates, 4 code objects, 8 line ids, 16 source lines); corpus/C35_lambda.py "
               "(1 predicate, 3 code objects, 2 line ids; one line is def + predicate + first line of a branch-less lambda): all "
               "states, with/without an empty second trace",
               "branch obligations": "all 4**3 predicate states x 2**2 branch-less bits, lines not visited",
               "line obligations": "all 2**8 line subsets, no predicate executed",
               "both metrics": "all predicate states x branch-less bits x 3 symbolic line bits (ids 1, 4, 7)",
               "suite": "1 chromosome, or 2 with the second trace one of 3 fixed shapes", "metrics": "{}, {B}, {L}, {B,L}, {B,L,CHECKED}"},
    "outside": ["HTML report (render_coverage_report)", "suites generated by a search run (property quantifier text)",
                "modules other than the corpus module", "modules whose source cannot be read (RuntimeError path)"],
    "assumptions": ["trace invariant guaranteed by the tracer (see C10)", "trace ids are registered in the subject properties",
                    "chromosome stubs that already carry their execution result",
                    "in-memory stand-in for the report Path (open() returns a StringIO)"],
}


def obligations(tier: str):
    from engines.runner import Chx

    q = tier == "quick"
    T = 200 if q else 900
    S = [0, 1, 2, 3]
    nol = {f"l{i}": False for i in range(8)}
    nop = {}
    for i in range(3):
        nop.update({f"s{i}": 0, f"n{i}": 1, f"a{i}": 1, f"k{i}": False})
    obs = []
    nok12 = {"k1": False, "k2": False}
    # branch metric only: all predicate states and branch-less bits; second chromosome none / shape 2
    obs.append(Chx("branch", h_report, timeout=T, fix=dict(nol, m=1, **nok12), split={"second": [0, 2] if q else [0, 2, 3], "s0": S}))
    # line metric only: all line subsets
    obs.append(Chx("line", h_report, timeout=T, fix=dict(nop, m=2, b0=False, b1=False),
                   split={"second": [0, 2], "l0": [False, True], "l1": [False, True]}))
    # both metrics: all predicate states, branch-less bits, two (thorough: three) line bits
    some = dict(nol)
    for i in ((1, 4) if q else (1, 4, 7)):
        del some[f"l{i}"]
    obs.append(Chx("both", h_report, timeout=T, fix=dict(some, m=3, k0=False, **nok12), split={"second": [0] if q else [0, 3], "s0": S, "s1": S}))
    # other metric subsets and an empty second trace, on a thinner slice
    thin = dict(some, s1=0, n1=1, a1=1, k0=False, **nok12)
    obs.append(Chx("metrics", h_report, timeout=T, fix=thin, split={"m": [0, 4], "second": [0, 1]}))
    # a line that starts a branch-less code object AND holds a predicate (lambda + conditional expression)
    obs.append(Chx("lambda_line", h_report_lambda, timeout=T, split={"m": [1, 3] if q else [0, 1, 2, 3, 4]}))
    return obs
