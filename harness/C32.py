"""C32 (kernel only: the abort gate) — a thread that is no longer the active one cannot record anything.

One step with symbolic thread identities: ``threading.current_thread`` (as seen by pynguin.instrumentation.tracer)
is a stub whose ``ident`` is the symbolic ``cur``; the tracer's ``_current_thread_identifier`` is the symbolic
``active`` (or ``None``).  Every callback kind of the tracer interface, the ``__enter__/__exit__/stop`` transitions
and ``TestCaseExecutor._before/_after_statement_execution`` are run on the real code.

Real timeouts, thread scheduling, the ``threading.local`` isolation of traces and the grace period are outside:
this check detects removal, weakening or reordering of the gate, not scheduling bugs.
"""
from __future__ import annotations

import dis
import threading as _real_threading

import pynguin.instrumentation.tracer as tr
from engines.prelude import reach, vacuous
from pynguin.instrumentation import PynguinCompare
from pynguin.testcase.execution import TestCaseExecutor
from pynguin.utils.exceptions import TracingAbortedException

PROPERTY = "C32"


def _sel(x, n: int) -> int:
    lo, hi = 0, n
    while hi - lo > 1:
        mid = (lo + hi) // 2
        if x < mid:
            hi = mid
        else:
            lo = mid
    return lo


# ---------------------------------------------------------------- stubs
class _Thread:
    def __init__(self, ident):
        self.ident = ident
        self.name = "stub"


class _Threading:
    """What pynguin.instrumentation.tracer sees as the ``threading`` module while a harness runs: only
    ``current_thread`` differs (its ``ident`` is the harness-chosen, possibly symbolic identity)."""

    local = _real_threading.local
    Thread = _real_threading.Thread

    def __init__(self):
        self.ident = None

    def current_thread(self):
        return _Thread(self.ident)


def _install() -> _Threading:
    stub = _Threading()
    tr.threading = stub
    return stub


def _restore() -> None:
    tr.threading = _real_threading


class _ExcStatement:
    """Statement stub for track_exception_assertion."""

    def __init__(self):
        self.assertions = ["the-exception-assertion"]

    def has_only_exception_assertion(self):
        return True


_OP_LOAD = dis.opmap["LOAD_FAST"]
_OP_TRUE_JUMP = dis.opmap["POP_JUMP_IF_TRUE"]
_OP_CALL = dis.opmap["CALL"]
_OP_RETURN = dis.opmap["RETURN_VALUE"]
_OP_ATTR = dis.opmap["LOAD_ATTR"]


class _Obj:
    real = 1


# kind -> (method name, args)
CALLBACKS = (
    ("executed_code_object", (3,)),
    ("executed_compare_predicate", (1, 2, 0, PynguinCompare.EQ)),
    ("executed_bool_predicate", (True, 0)),
    ("executed_in_presence_predicate", (1, [1, 2], 0)),
    ("executed_exception_match", (ValueError("x"), ValueError, 0)),
    ("track_line_visit", (7,)),
    ("track_generic", ("m", 0, 1, _OP_RETURN, 10, 2)),
    ("track_memory_access", ("m", 0, 1, _OP_LOAD, 10, 2, "x", 5)),
    ("track_attribute_access", ("m", 0, 1, _OP_ATTR, 10, 2, "real", _Obj())),
    ("track_jump", ("m", 0, 1, _OP_TRUE_JUMP, 10, 2, 4)),
    ("track_call", ("m", 0, 1, _OP_CALL, 10, 2, 0)),
    ("track_return", ("m", 0, 1, _OP_RETURN, 10, 2)),
    ("track_exception_assertion", (_ExcStatement(),)),
    ("track_assertion_position", ("the-assertion",)),
)
NK = len(CALLBACKS)


def _snapshot(trace: tr.ExecutionTrace):
    """Every field of the trace, copied (field by field comparison before/after)."""
    return (
        list(trace.executed_code_objects),
        dict(trace.executed_predicates),
        dict(trace.true_distances),
        dict(trace.false_distances),
        list(trace.covered_line_ids),
        list(trace.executed_instructions),
        list(trace.object_addresses),
        [(a.trace_position, a.assertion) for a in trace.executed_assertions],
        list(trace.checked_lines),
    )


def _fresh_tracer(stub: _Threading):
    """A tracer with a non-empty trace recorded by the then-active thread 1 (so that 'unchanged' is not
    trivially 'empty' and track_assertion_position finds its jump)."""
    tracer = tr.ExecutionTracer()
    stub.ident = 1
    tracer.__enter__()
    try:
        tracer.track_line_visit(1)
        tracer.track_jump("m", 0, 0, _OP_TRUE_JUMP, 1, 0, 2)
    except TracingAbortedException:
        return None  # the active thread was aborted: reported as a violation by the callers
    tracer.stop()
    return tracer


# ---------------------------------------------------------------- obligations
def h_gate(k: int, via_proxy: bool, cur: int, active: int, active_none: bool, disabled: bool, seen: bool) -> bool:
    """
    pre: 0 <= k < 14
    post: _
    """
    k = _sel(k, NK)
    name, args = CALLBACKS[k]
    stub = _install()
    try:
        tracer = _fresh_tracer(stub)
        if tracer is None:
            return reach(False)
        target = tr.InstrumentationExecutionTracer(tracer) if via_proxy else tracer
        if seen:
            # the same event was already recorded by the then-active thread 1 (an already covered line, an
            # already executed code object ...): the gate must not depend on whether the event is new
            stub.ident = 1
            tracer._current_thread_identifier = 1
            try:
                getattr(tracer, name)(*args)
            except TracingAbortedException:
                return reach(False)
        tracer._current_thread_identifier = None if active_none else active
        if disabled:
            tracer.disable()
        stub.ident = cur
        before = _snapshot(tracer.get_trace())
        try:
            getattr(target, name)(*args)
            aborted = False
        except Exception as e:  # noqa: BLE001
            # what a broad `except Exception:` in (uninstrumented) code called by the SUT would catch: the abort
            # signal must not be catchable that way, and the callbacks raise nothing else on these arguments
            return reach(not isinstance(e, TracingAbortedException) and False)
        except TracingAbortedException:
            aborted = True
        after = _snapshot(tracer.get_trace())
        is_active = (not active_none) and cur == active
        if tracer.is_disabled() != disabled:
            return reach(False)  # the call must not flip the enabled flag
        if aborted and is_active:
            return reach(False)  # the active thread is never aborted
        if disabled or not is_active:
            # a disabled tracer and a thread that is not the active one record nothing ...
            if after != before:
                return reach(False)
            # ... and the non-active thread is aborted (a disabled tracer may let its caller continue)
            return reach(aborted or disabled)
        # the active thread records (an event that was already recorded may leave the trace as it is)
        return reach(after != before or seen)
    finally:
        _restore()


def h_lifecycle(n: int, e1: int, e2: int, e3: int, e4: int, a: int, b: int, c: int, d: int, p: int) -> bool:
    """
    pre: 0 <= n <= 4 and 0 <= e1 < 3 and 0 <= e2 < 3 and 0 <= e3 < 3 and 0 <= e4 < 3
    pre: (n >= 4 or e4 == 0) and (n >= 3 or e3 == 0) and (n >= 2 or e2 == 0) and (n >= 1 or e1 == 0)
    post: _
    """
    n = _sel(n, 5)
    events = [(_sel(e1, 3), a), (_sel(e2, 3), b), (_sel(e3, 3), c), (_sel(e4, 3), d)][:n]
    stub = _install()
    try:
        tracer = tr.ExecutionTracer()
        proxy = tr.InstrumentationExecutionTracer(tracer)
        owner = None  # reference model: the thread that entered last and has not been stopped since
        for ev, ident in events:
            stub.ident = ident
            if ev == 0:
                proxy.__enter__()
                owner = ("thread", ident)
            elif ev == 1:
                proxy.__exit__(None, None, None)
                owner = None
            else:
                proxy.stop()
                owner = None
        stub.ident = p
        results = []
        for target in (tracer, proxy):
            try:
                target.check()
                results.append(True)
            except TracingAbortedException:
                results.append(False)
        want = owner is not None and owner[1] == p
        return reach(results[0] == want and results[1] == want)
    finally:
        _restore()


class _Observer:
    def __init__(self, log, tracer, tag):
        self.log = log
        self.tracer = tracer
        self.tag = tag

    def before_statement_execution(self, statement, node, namespace):
        self.log.append(("before", self.tag, self.tracer.is_disabled()))
        return node

    def after_statement_execution(self, statement, executor, namespace, exception):
        self.log.append(("after", self.tag, self.tracer.is_disabled()))


class _Props:
    def __init__(self, tracer):
        self.instrumentation_tracer = tracer


class _Executor:
    """Stands for a TestCaseExecutor as far as the two statement hooks use it."""

    def __init__(self, tracer, observers):
        self._subject_properties = _Props(tracer)
        self._obs = observers

    def _yield_remote_observers(self):
        yield from self._obs


class _Stmt:
    node = "the-node"


def h_hooks(after: bool, nobs: int, cur: int, active: int, active_none: bool) -> bool:
    """
    pre: 0 <= nobs <= 2
    post: _
    """
    nobs = _sel(nobs, 3)
    stub = _install()
    try:
        tracer = _fresh_tracer(stub)
        if tracer is None:
            return reach(False)
        proxy = tr.InstrumentationExecutionTracer(tracer)
        log: list = []
        fake = _Executor(proxy, [_Observer(log, tracer, i) for i in range(nobs)])
        tracer._current_thread_identifier = None if active_none else active
        stub.ident = cur
        before = _snapshot(tracer.get_trace())
        try:
            if after:
                TestCaseExecutor._after_statement_execution(fake, _Stmt(), {}, None)
                got = None
            else:
                got = TestCaseExecutor._before_statement_execution(fake, _Stmt(), {})
            aborted = False
        except TracingAbortedException:
            aborted = True
        unchanged = _snapshot(tracer.get_trace()) == before
        is_active = (not active_none) and cur == active
        if not is_active:
            # the abandoned thread is aborted before any observer sees the statement
            return reach(aborted and log == [] and unchanged and not tracer.is_disabled())
        order = list(range(nobs))
        if after:
            want = [("after", i, True) for i in reversed(order)]
        else:
            want = [("before", i, True) for i in order]
        ok = (not aborted) and log == want and unchanged and not tracer.is_disabled()
        if not after:
            ok = ok and got == "the-node"
        return reach(ok)
    finally:
        _restore()


def _interface_covered() -> dict:
    """Concrete, labelled side condition: the callback table of this harness covers every ``executed_*`` / ``track_*``
    method of the tracer interface (a new callback must be added to the table, it cannot silently stay unchecked),
    and the executor's statement loop calls both hooks."""
    import inspect

    names = sorted(n for n in dir(tr.AbstractExecutionTracer) if n.startswith(("executed_", "track_")))
    table = sorted(n for n, _ in CALLBACKS)
    missing = [n for n in names if n not in table]
    extra = [n for n in table if n not in names]
    src = inspect.getsource(TestCaseExecutor._execute_test_case)
    loop_ok = "_before_statement_execution" in src and "_after_statement_execution" in src
    ok = not missing and not extra and loop_ok
    out = {"ok": ok, "cases": len(names) + 1, "nontrivial": len(names),
           "detail": f"{len(names)} callback methods in AbstractExecutionTracer, table covers all: {not missing}; "
                     f"_execute_test_case calls both statement hooks: {loop_ok}",
           "samples": [{"callbacks": names}]}
    if not ok:
        out["message"] = f"missing={missing} extra={extra} loop_ok={loop_ok}"
    return out


META = {
    "level": "other",
    "claim": "Kernel only (the abort gate), as one step with symbolic thread identities. (gate) for each of the 14 callback "
             "methods of the tracer interface, called on the ExecutionTracer or through InstrumentationExecutionTracer, for "
             "ALL integers cur (identity of the calling thread) and active (identity stored by __enter__, or None after "
             "stop): if the tracer is disabled nothing is recorded; otherwise if cur is not the active identity "
             "TracingAbortedException is raised and the trace is unchanged field by field; if it is, the callback records. "
             "(lifecycle) after every sequence of <= 3 (thorough: 4) __enter__/__exit__/stop events by threads with arbitrary identities, "
             "check() passes exactly for the thread that entered last and has not been stopped since -- after stop()/__exit__ "
             "no identity passes. (hooks) TestCaseExecutor._before/_after_statement_execution abort a non-active thread "
             "before any observer is called and leave the trace unchanged; for the active thread they call the observers "
             "(forward / reversed) with the tracer disabled and re-enable it. Exhaustive within these bounds when every "
             "obligation reports 'confirmed'.",
    "note": "Claimed at kernel level: this detects removal, weakening or reordering of the gate. It says nothing about real "
            "timeouts, thread scheduling (a stop() between check() and the recording statement), thread-local trace isolation "
            "or the grace period. Trusts CPython 3.12.1, CrossHair's int model, z3.",
    "functions": ["pynguin.instrumentation.tracer._early_return.wrapper", "ExecutionTracer.check/__enter__/__exit__/stop/"
                  "is_disabled/enable/disable/temporarily_disable", "ExecutionTracer.executed_*/track_* (14 callbacks)",
                  "InstrumentationExecutionTracer (forwarding of the same)",
                  "pynguin.testcase.execution.TestCaseExecutor._before_statement_execution/_after_statement_execution"],
    "bounds": {"thread identities": "unbounded symbolic ints (cur, active, the identities of the lifecycle events)",
               "callbacks": "14 kinds with one concrete argument tuple each", "lifecycle": "<= 3 (quick) / 4 (thorough) events",
               "observers": "<= 2"},
    "outside": ["real timeouts and the grace period; thread scheduling and interleavings; the join/stop protocol in "
                "TestCaseExecutor.execute; threading.local isolation of traces; subprocess execution mode",
                "callback arguments other than the fixed ones (their handling is C04/C05's subject)",
                "identity reuse by the OS after a thread ended"],
    "assumptions": ["`threading` as seen by pynguin.instrumentation.tracer is replaced by a stub whose current_thread().ident is "
                    "the harness-chosen identity; threading.local stays the real one (single real thread)",
                    "the two executor hooks are called as plain functions on a stand-in object providing "
                    "_subject_properties.instrumentation_tracer and _yield_remote_observers()",
                    "the identity of a running thread is an int (never None)"],
}


def obligations(tier: str):
    from engines.runner import Chx, Py

    T = 120 if tier == "quick" else 600
    return [
        Py("interface_covered", _interface_covered),
        Chx("gate", h_gate, timeout=T, split={"via_proxy": [False, True]}),
        Chx("lifecycle", h_lifecycle, timeout=T, split={"n": [0, 1, 2, 3] if tier == "quick" else [0, 1, 2, 3, 4]}),
        Chx("hooks", h_hooks, timeout=T, split={"after": [False, True]}),
    ]
