"""C10 — fitness values, coverage values and covered verdicts agree.

F-trace harnesses (``harness/_ftrace.py``): a real ``SubjectProperties`` obtained by
instrumenting ``corpus/C10_small.py``, restricted to a few whole code objects, and an
``ExecutionTrace`` assembled from symbolic selectors.  The real fitness / coverage
functions and goal classes are run on it through stub chromosomes and a stub executor.

The oracle is computed from the *decoded selector state* only (which branches were
taken, which code objects / lines were entered), never from the trace dictionaries the
code under test reads: a goal is covered iff its branch was taken (distance 0.0) / its
code object entered / its line visited; a suite is covered iff all its goals are.
"""
from __future__ import annotations

from math import inf

import pynguin.configuration as config
import pynguin.ga.computations as ff
import pynguin.ga.coveragegoals as bg
import pynguin.ga.fitness_metrics as fm
import pynguin.utils.controlflowdistance as cfd
from engines.prelude import pick, reach, realize, warm_networkx
from harness import _ftrace as ft

PROPERTY = "C10"

# ---------------------------------------------------------------- registries (views of the instrumented corpus module)
VIEW_SPECS = (
    ("nested", ["nested", "inner"]),  # 0: P=3 (CDG chain), 1 branch-less
    ("seq", ["sequential", "inner"]),  # 1: P=2 (independent), 1 branch-less
    ("box", ["pos", "get", "Box"]),  # 2: P=1, 2 branch-less
    ("branchless", ["<module>", "outer", "inner"]),  # 3: P=0, 3 branch-less
    ("empty", []),  # 4: P=0, C=0
    ("guard", ["guarded", "get"]),  # 5: P=2 (try/except, `is None`), 1 branch-less
    ("seqguard", ["sequential", "guarded", "get"]),  # 6: P=4 over two code objects, 1 branch-less
    ("loop", ["loop", "outer"]),  # 7: P=4 (for/else/break, while), 1 branch-less
    ("bool", ["boolops", "inner"]),  # 8: P=4 on one source line
    ("twins", ["twin_a", "twin_b"]),  # 9: two same-shaped code objects (equal node indices), one predicate each
)
VIEWS = tuple(ft.View(names, n_lines=4) for _, names in VIEW_SPECS)
VIEW_ID = {name: i for i, (name, _) in enumerate(VIEW_SPECS)}
MAXP, MAXC, MAXL = 4, 3, 4


def _warm_up():
    """Outside tracing: compile networkx's lazily exec'd functions and run the CDG path query once."""
    warm_networkx()
    view = VIEWS[VIEW_ID["nested"]]
    t = ft.build_trace(view, [(1, 0.0, 1.0), None, None], [True, False])
    cfd.get_non_root_control_flow_distance(ft.result_of(t), view.preds[2], True, view.sp)


_warm_up()

# exact IEEE edge distances (k >= 2); k == 0: a/16 (symbolic positive multiple of 1/16), k == 1: inf
TABLE = (None, inf, 5e-324, 1e308, 1e-17, 0.1, 1.7976931348623157e308)


def _dist(a, k):
    if k == 0:
        return a / 16
    return pick(TABLE, k)


def _states(view, sel):
    """sel = [(s, n, a, k)] * MAXP -> decoded states for the predicates of the view."""
    out = []
    for i in range(len(view.preds)):
        s, n, a, k = sel[i]
        out.append(ft.pred_state(s, n, _dist(a, k), False))
    return out


def _finite_nonneg(x) -> bool:
    return x == x and 0.0 <= x < inf


# ---------------------------------------------------------------- bodies
def _oracle(view, sts, cbits):
    """(number of goals, number of covered goals) from the decoded state: 2 goals per predicate (covered iff that
    branch was taken), 1 per branch-less code object (covered iff entered)."""
    n_goals = 2 * len(view.preds) + len(view.branchless)
    n_cov = 0
    for st in sts:
        n_cov += (1 if ft.taken_true(st) else 0) + (1 if ft.taken_false(st) else 0)
    for c, b in zip(view.code_objects, cbits):
        if c in view.branchless and b:
            n_cov += 1
    return n_goals, n_cov


def _values(view, sts, cbits) -> bool:
    """Branch fitness / coverage of one trace against the state oracle (pure metric functions)."""
    trace = ft.build_trace(view, sts, cbits)
    n_goals, n_cov = _oracle(view, sts, cbits)
    all_covered = n_cov == n_goals
    fit = fm.compute_branch_distance_fitness(trace, view.sp)
    cov = fm.compute_branch_coverage(trace, view.sp)
    ok = _finite_nonneg(fit) and 0.0 <= cov <= 1.0
    ok = ok and (fit == 0.0) == all_covered and (cov == 1.0) == all_covered
    ok = ok and (fit == 0.0) == (cov == 1.0)
    # every uncovered goal contributes a value in (0, 1], every covered goal 0
    ok = ok and fit <= n_goals - n_cov
    ok = ok and cov == (1.0 if n_goals == 0 else n_cov / n_goals)
    return ok


def _is_covered(view, sts, cbits) -> bool:
    trace = ft.build_trace(view, sts, cbits)
    n_goals, n_cov = _oracle(view, sts, cbits)
    return fm.compute_branch_distance_fitness_is_covered(trace, view.sp) == (n_cov == n_goals)


def _classes(view, sts, cbits, which) -> bool:
    """The fitness / coverage function classes (suite and test-case level, through analyze_results and the stub
    chromosomes) return what the pure metric functions return on the same trace."""
    trace = ft.build_trace(view, sts, cbits)
    ex = ft.StubExecutor(view.sp)
    suite = ft.suite_of(trace)
    case = ft.StubCase(ft.result_of(trace))
    if which == 0:
        want = fm.compute_branch_distance_fitness(trace, view.sp)
        f_s, f_c = ff.BranchDistanceTestSuiteFitnessFunction(ex), ff.BranchDistanceTestCaseFitnessFunction(ex, 0)
        return (f_s.compute_fitness(suite) == want and f_c.compute_fitness(case) == want
                and not f_s.is_maximisation_function() and not f_c.is_maximisation_function())
    if which == 1:
        want = fm.compute_branch_coverage(trace, view.sp)
        return (ff.TestSuiteBranchCoverageFunction(ex).compute_coverage(suite) == want
                and ff.TestCaseBranchCoverageFunction(ex).compute_coverage(case) == want)
    want = fm.compute_branch_distance_fitness_is_covered(trace, view.sp)
    return (ff.BranchDistanceTestSuiteFitnessFunction(ex).compute_is_covered(suite) == want
            and ff.BranchDistanceTestCaseFitnessFunction(ex, 0).compute_is_covered(case) == want)


def _goals(view, sts, cbits) -> bool:
    """Per goal: BranchCoverageTestFitness.compute_is_covered <=> compute_fitness == 0.0 <=> oracle."""
    trace = ft.build_trace(view, sts, cbits)
    ex = ft.StubExecutor(view.sp)
    case = ft.StubCase(ft.result_of(trace))
    st_of = dict(zip(view.preds, sts))
    bit_of = dict(zip(view.code_objects, cbits))
    fns = _goal_functions(view, ex)
    for f in fns:
        goal = f.goal
        if goal.is_branch:
            st = st_of[goal.predicate_id]
            want = ft.taken_true(st) if goal.value else ft.taken_false(st)
            bound = view.sp.existing_code_objects[goal.code_object_id].cfg.diameter + 1
        else:
            want = bool(bit_of[goal.code_object_id])
            bound = 1
        fit = f.compute_fitness(case)
        cov = f.compute_is_covered(case)
        if not (_finite_nonneg(fit) and fit <= bound):
            return False
        if cov != want or (fit == 0.0) != want:
            return False
    return True


class _StubArchive:
    """Stands for the CoverageArchive of WholeSuiteAlgorithm: the goals the population covers move to
    ``covered_goals`` on ``update`` (decided by the state oracle, not by the code under test)."""

    def __init__(self, goal_functions, covered_now):
        self.uncovered_goals = list(goal_functions)
        self.covered_goals = []
        self._covered_now = covered_now

    def update(self, _solutions):
        for g in list(self.uncovered_goals):
            if self._covered_now(g):
                self.uncovered_goals.remove(g)
                self.covered_goals.append(g)


class _Suite(ft.StubSuite):
    def invalidate_cache(self):
        pass


def _whole_suite_archive(view, sts, cbits) -> bool:
    """WholeSuiteAlgorithm._update_archive restricts the suite fitness to the goals the archive has not covered yet.
    With a population of one suite the archive covers exactly what the suite covers, so the restricted fitness of that
    suite is its unrestricted fitness (covered goals contribute 0 either way) and it is 0 exactly when everything is
    covered."""
    from pynguin.ga.algorithms.wholesuitealgorithm import WholeSuiteAlgorithm

    trace = ft.build_trace(view, sts, cbits)
    ex = ft.StubExecutor(view.sp)
    suite = _Suite([ft.StubCase(ft.result_of(trace))])
    st_of = dict(zip(view.preds, sts))
    bit_of = dict(zip(view.code_objects, cbits))

    def covered_now(f):
        goal = f.goal
        if goal.is_branch:
            st = st_of[goal.predicate_id]
            return ft.taken_true(st) if goal.value else ft.taken_false(st)
        return bool(bit_of[goal.code_object_id])

    fns = _goal_functions(view, ex)
    func = ff.BranchDistanceTestSuiteFitnessFunction(ex)
    before = func.compute_fitness(suite)
    algo = object.__new__(WholeSuiteAlgorithm)
    algo._archive = _StubArchive(fns, covered_now)
    algo._population = [suite]
    algo._test_suite_fitness_functions = [func]
    old = config.configuration.search_algorithm.use_archive
    config.configuration.search_algorithm.use_archive = True
    try:
        algo._update_archive()
    finally:
        config.configuration.search_algorithm.use_archive = old
    after = func.compute_fitness(suite)
    n_goals, n_cov = _oracle(view, sts, cbits)
    return after == before and (after == 0.0) == (n_cov == n_goals)


def _goal_functions(view, ex):
    pool = bg.BranchGoalPool(view.sp)
    fns = list(bg.create_branch_coverage_fitness_functions(ex, pool))
    assert len(fns) == 2 * len(view.preds) + len(view.branchless)
    assert not any(f.is_maximisation_function() for f in fns)
    return fns


def _lines(view, bits, checked: bool) -> bool:
    """Line (checked=False) / statement-checked (True) fitness, coverage and covered verdicts: suite, case, per goal."""
    n = len(view.lines)
    none = [False] * n
    trace = ft.build_trace(view, [None] * len(view.preds), [False] * len(view.code_objects),
                           none if checked else bits, bits if checked else none)
    ex = ft.StubExecutor(view.sp)
    suite = ft.suite_of(trace)
    case = ft.StubCase(ft.result_of(trace))
    k = sum(1 for b in bits[:n] if b)
    if checked:
        f = ff.StatementCheckedTestSuiteFitnessFunction(ex)
        cov = ff.TestSuiteStatementCheckedCoverageFunction(ex).compute_coverage(suite)
        cov_c = ff.TestCaseStatementCheckedCoverageFunction(ex).compute_coverage(case)
        direct = fm.compute_checked_coverage_statement_fitness_is_covered(trace, view.sp)
        gfs = list(bg.create_checked_coverage_fitness_functions(ex))
    else:
        f = ff.LineTestSuiteFitnessFunction(ex)
        cov = ff.TestSuiteLineCoverageFunction(ex).compute_coverage(suite)
        cov_c = ff.TestCaseLineCoverageFunction(ex).compute_coverage(case)
        direct = fm.compute_line_coverage_fitness_is_covered(trace, view.sp)
        gfs = list(bg.create_line_coverage_fitness_functions(ex))
    fit, isc = f.compute_fitness(suite), f.compute_is_covered(suite)
    ok = _finite_nonneg(fit) and 0.0 <= cov <= 1.0 and isc == (fit == 0) and (fit == 0) == (cov == 1.0)
    ok = ok and isc == (k == n) and direct == (k == n) and fit == n - k and cov == (1.0 if n == 0 else k / n) and cov_c == cov
    ok = ok and not f.is_maximisation_function() and len(gfs) == n
    if not ok:
        return False
    for i in range(n):
        gf, gc = gfs[i].compute_fitness(case), gfs[i].compute_is_covered(case)
        if gc != bool(bits[i]) or (gf == 0) != gc or gf not in (0, 1) or gfs[i].is_maximisation_function():
            return False
    return True


def _view(v):
    return pick(VIEWS, v)


# ---------------------------------------------------------------- harness functions
def h_values(v: int, klo: int, khi: int, s0: int, n0: int, a0: int, k0: int, s1: int, n1: int, a1: int, k1: int,
             s2: int, n2: int, a2: int, k2: int, s3: int, n3: int, a3: int, k3: int,
             c0: bool, c1: bool, c2: bool) -> bool:
    """
    pre: 0 <= v <= 9 and 0 <= klo <= khi <= 6
    pre: 0 <= s0 <= 3 and 1 <= n0 <= 1000 and 1 <= a0 <= 2**60 and klo <= k0 <= khi
    pre: 0 <= s1 <= 3 and 1 <= n1 <= 1000 and 1 <= a1 <= 2**60 and klo <= k1 <= khi
    pre: 0 <= s2 <= 3 and 1 <= n2 <= 1000 and 1 <= a2 <= 2**60 and klo <= k2 <= khi
    pre: 0 <= s3 <= 3 and 1 <= n3 <= 1000 and 1 <= a3 <= 2**60 and klo <= k3 <= khi
    post: _
    """
    view = _view(v)
    sts = _states(view, [(s0, n0, a0, k0), (s1, n1, a1, k1), (s2, n2, a2, k2), (s3, n3, a3, k3)])
    return reach(_values(view, sts, [c0, c1, c2]))


def h_is_covered(v: int, klo: int, khi: int, s0: int, n0: int, a0: int, k0: int, s1: int, n1: int, a1: int, k1: int,
                 s2: int, n2: int, a2: int, k2: int, s3: int, n3: int, a3: int, k3: int,
                 c0: bool, c1: bool, c2: bool) -> bool:
    """
    pre: 0 <= v <= 9 and 0 <= klo <= khi <= 6
    pre: 0 <= s0 <= 3 and 1 <= n0 <= 1000 and 1 <= a0 <= 2**60 and klo <= k0 <= khi
    pre: 0 <= s1 <= 3 and 1 <= n1 <= 1000 and 1 <= a1 <= 2**60 and klo <= k1 <= khi
    pre: 0 <= s2 <= 3 and 1 <= n2 <= 1000 and 1 <= a2 <= 2**60 and klo <= k2 <= khi
    pre: 0 <= s3 <= 3 and 1 <= n3 <= 1000 and 1 <= a3 <= 2**60 and klo <= k3 <= khi
    post: _
    """
    view = _view(v)
    sts = _states(view, [(s0, n0, a0, k0), (s1, n1, a1, k1), (s2, n2, a2, k2), (s3, n3, a3, k3)])
    return reach(_is_covered(view, sts, [c0, c1, c2]))


def h_goals(v: int, klo: int, khi: int, s0: int, n0: int, a0: int, k0: int, s1: int, n1: int, a1: int, k1: int,
            s2: int, n2: int, a2: int, k2: int, s3: int, n3: int, a3: int, k3: int,
            c0: bool, c1: bool, c2: bool) -> bool:
    """
    pre: 0 <= v <= 9 and 0 <= klo <= khi <= 6
    pre: 0 <= s0 <= 3 and 1 <= n0 <= 1000 and 1 <= a0 <= 2**60 and klo <= k0 <= khi
    pre: 0 <= s1 <= 3 and 1 <= n1 <= 1000 and 1 <= a1 <= 2**60 and klo <= k1 <= khi
    pre: 0 <= s2 <= 3 and 1 <= n2 <= 1000 and 1 <= a2 <= 2**60 and klo <= k2 <= khi
    pre: 0 <= s3 <= 3 and 1 <= n3 <= 1000 and 1 <= a3 <= 2**60 and klo <= k3 <= khi
    post: _
    """
    view = _view(v)
    sts = _states(view, [(s0, n0, a0, k0), (s1, n1, a1, k1), (s2, n2, a2, k2), (s3, n3, a3, k3)])
    return reach(_goals(view, sts, [c0, c1, c2]))


def h_whole_suite_archive(v: int, klo: int, khi: int, s0: int, n0: int, a0: int, k0: int, s1: int, n1: int, a1: int, k1: int,
                          s2: int, n2: int, a2: int, k2: int, s3: int, n3: int, a3: int, k3: int,
                          c0: bool, c1: bool, c2: bool) -> bool:
    """
    pre: 0 <= v <= 9 and 0 <= klo <= khi <= 6
    pre: 0 <= s0 <= 3 and 1 <= n0 <= 1000 and 1 <= a0 <= 2**60 and klo <= k0 <= khi
    pre: 0 <= s1 <= 3 and 1 <= n1 <= 1000 and 1 <= a1 <= 2**60 and klo <= k1 <= khi
    pre: 0 <= s2 <= 3 and 1 <= n2 <= 1000 and 1 <= a2 <= 2**60 and klo <= k2 <= khi
    pre: 0 <= s3 <= 3 and 1 <= n3 <= 1000 and 1 <= a3 <= 2**60 and klo <= k3 <= khi
    post: _
    """
    view = _view(v)
    sts = _states(view, [(s0, n0, a0, k0), (s1, n1, a1, k1), (s2, n2, a2, k2), (s3, n3, a3, k3)])
    return reach(_whole_suite_archive(view, sts, [c0, c1, c2]))


def h_classes(which: int, s0: int, n0: int, a0: int, k0: int, c0: bool, c1: bool, c2: bool) -> bool:
    """
    pre: 0 <= which <= 2
    pre: 0 <= s0 <= 3 and 1 <= n0 <= 1000 and 1 <= a0 <= 2**60 and 0 <= k0 <= 1
    post: _
    """
    view = VIEWS[VIEW_ID["box"]]
    return reach(_classes(view, [ft.pred_state(s0, n0, _dist(a0, k0), False)], [c0, c1, c2], which))


def h_lines(v: int, checked: bool, l0: bool, l1: bool, l2: bool, l3: bool) -> bool:
    """
    pre: 0 <= v <= 8
    post: _
    """
    view = _view(v)
    return reach(_lines(view, [l0, l1, l2, l3], checked))


def h_exclusions(s0: int, n0: int, a0: int, k0: int, c1: bool, c2: bool,
                 xt: bool, xf: bool, x1: bool, x2: bool, xo: bool, isc: bool) -> bool:
    """
    pre: 0 <= s0 <= 3 and 1 <= n0 <= 1000 and 1 <= a0 <= 2**60 and 0 <= k0 <= 1
    post: _
    """
    # view "box": one predicate (Box.pos), two branch-less code objects (Box.get, Box).
    # restrict(): xt / xf exclude the predicate's true / false branch, x1 / x2 the two branch-less
    # code objects, xo the code object that owns the predicate (must not matter).
    view = VIEWS[VIEW_ID["box"]]
    st = ft.pred_state(s0, n0, _dist(a0, k0), False)
    trace = ft.build_trace(view, [st], [False, c1, c2])
    ex = ft.StubExecutor(view.sp)
    suite = ft.suite_of(trace)
    f = ff.BranchDistanceTestSuiteFitnessFunction(ex)
    p = view.preds[0]
    co_p, co1, co2 = view.code_objects
    f.restrict({co1} if x1 else set(), {p} if xt else set(), set())
    f.restrict(({co2} if x2 else set()) | ({co_p} if xo else set()), set(), {p} if xf else set())
    open_goals = 0
    if not xt and not ft.taken_true(st):
        open_goals += 1
    if not xf and not ft.taken_false(st):
        open_goals += 1
    if not x1 and not c1:
        open_goals += 1
    if not x2 and not c2:
        open_goals += 1
    if isc:
        return reach(f.compute_is_covered(suite) == (open_goals == 0))
    fit = f.compute_fitness(suite)
    return reach(_finite_nonneg(fit) and (fit == 0.0) == (open_goals == 0) and fit <= open_goals)


def h_cfd_order(l1: int, a1: int, k1: int, l2: int, a2: int, k2: int) -> bool:
    """
    pre: 0 <= l1 <= 40 and 0 <= a1 <= 2**60 and 0 <= k1 <= 6
    pre: 0 <= l2 <= 40 and 0 <= a2 <= 2**60 and 0 <= k2 <= 6
    post: _
    """
    # ControlFlowDistance ordering is consistent with get_resulting_branch_fitness
    d1 = cfd.ControlFlowDistance(l1, _dist(a1, k1))
    d2 = cfd.ControlFlowDistance(l2, _dist(a2, k2))
    f1, f2 = d1.get_resulting_branch_fitness(), d2.get_resulting_branch_fitness()
    ok = _finite_nonneg(f1) and _finite_nonneg(f2)
    ok = ok and (f1 == 0.0) == (l1 == 0 and d1.branch_distance == 0.0)
    ok = ok and l1 <= f1 <= l1 + 1
    if d1 < d2:
        ok = ok and f1 <= f2 and not d2 < d1 and d1 != d2 and d2 > d1 and d1 <= d2
    if d1 == d2:
        ok = ok and f1 == f2 and not d1 < d2 and (l1 == l2)
    ok = ok and ((d1 < d2) or (d2 < d1) or d1 == d2)
    if l1 < l2:
        ok = ok and d1 < d2
    return reach(ok)


def h_cfd_hash(l1: int, k1: int, l2: int, k2: int) -> bool:
    """
    pre: 0 <= l1 <= 2 and 1 <= k1 <= 4
    pre: 0 <= l2 <= 2 and 1 <= k2 <= 4
    post: _
    """
    # equal control-flow distances hash equally (hash() realises its argument: solver-enumerated concrete cases)
    d1 = cfd.ControlFlowDistance(realize(l1), _dist(1, k1))
    d2 = cfd.ControlFlowDistance(realize(l2), _dist(1, k2))
    same = l1 == l2 and k1 == k2
    return reach((d1 == d2) == same and (not same or hash(d1) == hash(d2)) and d1 == d1 and d1 != 0)


def h_root_distance(c0: bool, c1: bool, c2: bool, g: int) -> bool:
    """
    pre: 0 <= g <= 2
    post: _
    """
    # get_root_control_flow_distance: (0, 0.0) iff the code object was entered, else (1, 0.0)
    view = VIEWS[VIEW_ID["branchless"]]
    trace = ft.build_trace(view, [], [c0, c1, c2])
    co = pick(view.code_objects, g)
    want = pick((c0, c1, c2), g)
    d = cfd.get_root_control_flow_distance(ft.result_of(trace), co, view.sp)
    ok = d.branch_distance == 0.0 and d.approach_level == (0 if want else 1)
    ok = ok and (d.get_resulting_branch_fitness() == 0.0) == bool(want)
    return reach(ok)


def h_replay_normalise(v: int) -> bool:
    from harness import _E2_lemmas as L

    return L.replay_normalise(v)


def h_replay_normalise_monotone(a: int, b: int) -> bool:
    from harness import _E2_lemmas as L

    return L.replay_normalise_monotone(a, b)


def h_replay_normalise_monotone_1ulp(a: int, b: int) -> bool:
    from harness import _E2_lemmas as L

    return L.replay_normalise_monotone_1ulp(a, b)


META = {
    "level": "model_checking",
    "claim": "Bounded model checking by symbolic execution of the real fitness/coverage code over F-trace: for every "
             "execution trace over registries of <= 3 (thorough <= 4) predicates and <= 3 code objects taken from a really "
             "instrumented corpus module (real CFGs/CDGs) — each predicate not executed / executed 1..1000 times always-true / "
             "always-false / both ways, the open branch at any positive distance a/16 (a <= 2**60), at inf, or at an exact "
             "IEEE edge value (5e-324, 1e-17, 0.1, 1e308, DBL_MAX), each code object entered or not, each of <= 4 lines "
             "visited / checked or not — suite and test-case branch fitness is finite and >= 0, coverage is in [0,1] and "
             "equals covered/existing goals, fitness == 0 <=> coverage == 1 <=> all goals covered <=> compute_is_covered; "
             "per goal BranchCoverageTestFitness/LineCoverageTestFitness/StatementCheckedCoverageTestFitness "
             "compute_is_covered <=> compute_fitness == 0 <=> the goal's branch/code object/line was reached; the same for "
             "restricted (exclude_*) suite fitness; ControlFlowDistance ordering is consistent with the resulting fitness.",
    "note": "Distances a/16 are decided in CrossHair's real-number float model (exact rationals); the IEEE rounding of "
            "normalise(v) = v/(1+v) is covered by the separate IEEE lemma obligation and by the exact edge-value table. "
            "Trusts CPython 3.12.1, CrossHair's int/float(real)/dict models, z3.",
    "functions": ["pynguin.ga.algorithms.wholesuitealgorithm.WholeSuiteAlgorithm._update_archive (stub archive)", "pynguin.ga.fitness_metrics.compute_branch_distance_fitness", "compute_branch_distance_fitness_is_covered",
                  "_predicate_fitness", "normalise", "compute_branch_coverage", "compute_line_coverage",
                  "compute_line_coverage_fitness_is_covered", "compute_checked_coverage_statement_fitness_is_covered",
                  "analyze_results", "pynguin.ga.computations.{BranchDistanceTestSuiteFitnessFunction,"
                  "BranchDistanceTestCaseFitnessFunction,LineTestSuiteFitnessFunction,StatementCheckedTestSuiteFitnessFunction,"
                  "TestSuite/TestCase{Branch,Line,StatementChecked}CoverageFunction}",
                  "pynguin.ga.coveragegoals.{BranchGoalPool,BranchGoal,BranchlessCodeObjectGoal,BranchCoverageTestFitness,"
                  "LineCoverageTestFitness,StatementCheckedCoverageTestFitness,create_*_fitness_functions}",
                  "pynguin.utils.controlflowdistance.{ControlFlowDistance,get_root_control_flow_distance,"
                  "get_non_root_control_flow_distance}"],
    "bounds": {"predicates": "quick <= 3 per registry (views nested/seq/guard/box), thorough <= 4 (seqguard, loop, bool; finite distances only)",
               "code_objects": "<= 3", "lines": "<= 4", "hit_count": "1..1000 (both-ways: 2..1001)",
               "distance": "a/16 with 1 <= a <= 2**60, inf, or one of the exact IEEE values 5e-324, 1e308, 1e-17 (thorough also 0.1, "
               "DBL_MAX)", "traces_per_suite": 1, "exclusion sets": "every subset of the 4 goals + the owning code object (view box)",
               "approach_level (cfd_order)": "0..40"},
    "outside": ["real suites from search runs (property quantifier text): traces are assembled, not recorded",
                "assertion-checked coverage (needs the dynamic slicer)", "registries other than the corpus module's",
                "suites of several traces (merging is C11)", "positive distances that are not multiples of 1/16 other than "
                "the table values (IEEE lemma covers normalise on all of Float64)"],
    "assumptions": ["trace invariant guaranteed by the tracer (C04): a predicate has distances iff executed; distances >= 0, "
                    "not NaN; n == 1 -> exactly one distance is 0.0; n >= 2 -> at least one is 0.0",
                    "a code object is recorded as entered whenever one of its predicates was executed",
                    "trace ids are registered in the subject properties (validate_execution_trace)",
                    "executor/chromosome/result stubs: unchanged chromosomes that already carry a result object whose only "
                    "attribute read by the code under test is execution_trace",
                    "math.isclose (BranchGoal.is_covered) runs as CPython's algorithm re-written in Python under CrossHair "
                    "(harness/_ftrace.py) so that distances stay symbolic; the concrete replay calls the real math.isclose",
                    "cfd_hash: hash() realises its argument — solver-enumerated concrete cases (exhaustive in the bound)"],
}


def obligations(tier: str):
    from engines.runner import Chx

    q = tier == "quick"
    T = 200 if q else 900
    S = [0, 1, 2, 3]

    def fixes(name, klo, khi):
        """Pin the view, the distance-kind range and the selectors of unused predicate / code-object slots."""
        view = VIEWS[VIEW_ID[name]]
        fx = {"v": VIEW_ID[name], "klo": klo, "khi": khi}
        for i in range(len(view.preds), MAXP):
            fx.update({f"s{i}": 0, f"n{i}": 1, f"a{i}": 1, f"k{i}": klo})
        for i in range(len(view.code_objects), MAXC):
            fx[f"c{i}"] = False
        return fx

    def fam(tag, fn, name, nsplit, klo=0, khi=1):
        view = VIEWS[VIEW_ID[name]]
        split = {f"s{i}": S for i in range(min(len(view.preds), nsplit))}
        return Chx(f"{tag}[{name}]", fn, timeout=T, fix=fixes(name, klo, khi), split=split)

    obs = []
    # IEEE-exact lemmas for fitness_metrics.normalise (engine E2, encoded from the working tree's source on every run):
    # normalise(v) in [0,1], normalise(v) == 0 <=> v == 0, monotone, for every non-NaN v >= 0 in Float64
    from harness import _E2_lemmas as L

    obs += L.normalise_obligations(tier, h_replay_normalise, h_replay_normalise_monotone_1ulp)

    # ---- symbolic positive distances a/16 and inf (k in {0, 1})
    for name in ["seq", "guard", "box", "branchless", "empty"]:
        obs.append(fam("values", h_values, name, 1))
        obs.append(fam("is_covered", h_is_covered, name, 0))
        if name != "empty":
            obs.append(fam("goals", h_goals, name, 1))
    # predicates of two code objects with equal CDG node indices (approach levels must not mix code objects)
    obs.append(fam("goals", h_goals, "twins", 2))
    # the archive-driven restriction of the whole-suite fitness (WholeSuiteAlgorithm._update_archive + restrict)
    obs.append(fam("whole_suite_archive", h_whole_suite_archive, "seq", 2))
    obs.append(fam("whole_suite_archive", h_whole_suite_archive, "box", 1))
    obs.append(fam("values", h_values, "nested", 2))
    obs.append(fam("is_covered", h_is_covered, "nested", 1))
    obs.append(fam("goals", h_goals, "nested", 2))
    if not q:
        # four predicates, finite symbolic distances only (k == 0; inf and the IEEE table are covered with <= 3 predicates):
        # fitness/coverage values on one registry (they do not depend on the graph shape), covered verdicts and per-goal
        # control-flow distances on three differently shaped code objects
        obs.append(fam("values", h_values, "seqguard", 2, 0, 0))
        for name in ["seqguard", "loop", "bool"]:
            obs.append(fam("is_covered", h_is_covered, name, 1, 0, 0))
            obs.append(fam("goals", h_goals, name, 2, 0, 0))
    # ---- exact IEEE edge distances (k in 2..6)
    obs.append(fam("values_ieee", h_values, "seq", 1, 2, 4 if q else 6))
    obs.append(fam("goals_ieee", h_goals, "guard", 1, 2, 4 if q else 6))
    if not q:
        obs.append(fam("values_ieee", h_values, "nested", 2, 2, 6))
        obs.append(fam("goals_ieee", h_goals, "nested", 2, 2, 6))
    # ---- fitness/coverage classes == pure metric functions; lines / checked lines; exclusions; control-flow distances
    obs.append(Chx("classes", h_classes, timeout=T, split={"which": [0, 1, 2]}))
    for name in ["nested", "box", "empty"]:
        obs.append(Chx(f"lines[{name}]", h_lines, timeout=T, fix={"v": VIEW_ID[name]}, split={"checked": [False, True]}))
    obs.append(Chx("exclusions", h_exclusions, timeout=T, split={"isc": [False, True], "s0": S}))
    obs.append(Chx("cfd_order", h_cfd_order, timeout=T, split={"k1": [0, 1, 2], "k2": [0, 1, 3]}))
    obs.append(Chx("cfd_hash", h_cfd_hash, timeout=T))
    obs.append(Chx("root_distance", h_root_distance, timeout=T))
    return obs
