"""Stub process layer for C33.

Real (from /repo/src): ``run_pynguin_with_master_worker`` / ``PynguinClient`` / ``MasterProcess`` /
``RunningTask`` (all of it, incl. ``_restart`` / ``_adjust_search_time_after_crash`` / ``stop``) and
``worker_main`` (its try/except protocol and ``WorkerResult`` construction).

Stubbed: ``multiprocess.Pipe`` / ``multiprocess.Process`` as seen by ``master.py`` (a worker "process" runs
synchronously inside ``Process.start()``: to the master only ``recv()`` and the clock are observable),
``time.time`` as seen by ``master.py`` (a clock that advances only while a worker runs), and
``run_pynguin`` as seen by ``worker.py`` (the scripted fate of the k-th worker).
"""
from __future__ import annotations

import logging
import pickle

import pynguin.configuration as config
import pynguin.master_worker.client as client_mod
import pynguin.master_worker.master as master_mod
import pynguin.master_worker.worker as worker_mod
from pynguin.generator import ReturnCode

logging.disable(logging.CRITICAL)  # the protocol logs every crash; formatting is not under test



def _install_int_patch():
    """CrossHair's ``int()`` realises a symbolic float (one path per concrete elapsed time).  For the real-number
    float model ``float.__int__`` is available symbolically (truncation toward zero); use it, so that
    ``int(max(cur - elapsed, 0.0))`` in ``_adjust_search_time_after_crash`` stays symbolic in ``elapsed``."""
    try:
        import crosshair.core_and_libs  # noqa: F401  (fills the registries; must come first)
        from crosshair.core import _PATCH_REGISTRATIONS
        from crosshair.libimpl import builtinslib as bl
        from crosshair.tracers import NoTracing
    except ImportError:
        return
    orig = _PATCH_REGISTRATIONS.get(int)
    if orig is None or getattr(orig, "_verif_symbolic_float", False):
        return

    depth = [0]

    def _int(val=0, *a, **k):
        with NoTracing():
            sym = isinstance(val, bl.RealBasedSymbolicFloat) and not a and not k
            nested = depth[0] > 0
        if sym:
            return val.__int__()
        if nested:
            # CrossHair's own int() patch ends in a traced ``int(realized value)`` call, which the tracer would
            # route back to this wrapper: finish with the builtin
            with NoTracing():
                return int(val, *a, **k)
        depth[0] += 1
        try:
            return orig(val, *a, **k)
        finally:
            depth[0] -= 1

    _int._verif_symbolic_float = True
    _PATCH_REGISTRATIONS[int] = _int


_install_int_patch()

# fates of a worker (what happens to the k-th started process)
DIE_IN_RUN = 0        # the process dies somewhere inside run_pynguin() (import, search, assertions, export)
RETURNS = 1           # run_pynguin() returns a ReturnCode: worker_main sends it
RAISES = 2            # run_pynguin() raises an ordinary exception: worker_main sends an error result
DIE_EARLY = 3         # the process dies before worker_main runs (interpreter start-up / import of pynguin)
INTERRUPTED = 4       # KeyboardInterrupt inside run_pynguin(): worker_main returns without sending
SEND_BROKEN = 5       # run_pynguin() returns but the pipe is broken: nothing is delivered
GARBAGE = 6           # the process dies while sending: the master reads a truncated pickle
START_FAILS = 7       # Process.start() raises OSError (fork/spawn failure)
NFATES = 8

RCS = (ReturnCode.OK, ReturnCode.SETUP_FAILED, ReturnCode.NO_TESTS_GENERATED, ReturnCode.FINAL_METRICS_TRACKING_FAILED)


class _ProcessDied(BaseException):
    """The worker process is gone (not an ``Exception``: no handler in worker_main may see it)."""


class Unwound(Exception):
    """More workers were started than the script is long: the unwinding bound of the harness is too small or
    the restart protocol does not terminate."""


class World:
    def __init__(self, fates, gaps_eighths, rcs, t0=1000.0):
        self.fates, self.gaps, self.rcs = fates, gaps_eighths, rcs
        self.now = t0
        self.started = 0            # processes started so far
        self.budget_at_start = []   # configuration.stopping.maximum_search_time when the k-th process started
        self.subproc_at_start = []  # (subprocess, subprocess_if_recommended) at that moment
        self.delivered = []         # what reached the master through recv()
        self.current = None
        self.terminated = 0
        self.unwound = False
        self.hung = False
        self.configuration = None

    def time(self):
        return self.now


class FakeTime:
    def __init__(self, world):
        self._w = world

    def time(self):
        return self._w.time()


class Hung(Exception):
    """The master would block forever (e.g. ``recv`` on a pipe that can never signal end-of-file)."""


class _Conn:
    """One end of a pipe.  As with an OS pipe, the receiving end sees end-of-file only when EVERY copy of the sending
    end is closed: the worker's copy is closed when the worker process ends, the master's own copy only when the
    master closes it."""

    def __init__(self, world, state=None):
        self.w = world
        self.state = state if state is not None else {"box": [], "master_send_open": True, "send_end": None}
        self.broken = False
        self.garbage = False
        self.closed = False

    # sending end ---------------------------------------------------------------------------------
    def send(self, obj):
        if self.broken:
            raise BrokenPipeError("stub: broken pipe")
        if self.closed:
            raise OSError("stub: handle is closed")
        self.state["box"].append(obj)

    # receiving end -------------------------------------------------------------------------------
    def recv(self):
        if self.closed:
            raise OSError("stub: handle is closed")
        send_end = self.state["send_end"]
        if send_end.garbage:
            raise pickle.UnpicklingError("stub: pickle data was truncated")
        if not self.state["box"]:
            if not send_end.closed:
                # the worker is gone, but the master itself still holds the sending end open: no end-of-file, ever
                self.w.hung = True
                raise Hung("stub: recv() blocks forever - the master still holds the sending end of the pipe open")
            raise EOFError("stub: worker closed the pipe without a result")
        obj = self.state["box"].pop(0)
        self.w.delivered.append(obj)
        return obj

    def close(self):
        self.closed = True


class _Process:
    def __init__(self, world, target, args, name):
        self.w, self.target, self.args, self.name = world, target, args, name
        self.alive = False

    def start(self):
        w = self.w
        k = w.started
        if k >= len(w.fates):
            w.unwound = True
            raise Unwound(f"worker #{k + 1} started")
        fate = w.fates[k]
        w.started += 1
        cfg = w.configuration
        w.budget_at_start.append(cfg.stopping.maximum_search_time)
        w.subproc_at_start.append((cfg.subprocess, cfg.subprocess_if_recommended))
        if fate == START_FAILS:
            raise OSError("stub: cannot start process")
        # the worker lives for gaps[k]/8 seconds; the master cannot observe anything in between
        w.now = w.now + w.gaps[k] / 8
        conn = self.args[1]
        if fate == DIE_EARLY:
            return
        if fate == SEND_BROKEN:
            conn.broken = True
        w.current = (fate, w.rcs[k])
        try:
            self.target(*self.args)  # the real worker_main, with run_pynguin scripted (see scripted_run_pynguin)
        except _ProcessDied:
            pass
        if fate == GARBAGE:
            conn.garbage = True

    def is_alive(self):
        return self.alive

    def terminate(self):
        self.w.terminated += 1
        self.alive = False

    def kill(self):
        self.alive = False

    def join(self, timeout=None):
        return None


class FakeMP:
    """What ``master.py`` uses of ``multiprocess``."""

    def __init__(self, world):
        self._w = world
        self._last_conn = None

    def Pipe(self, duplex=True):  # noqa: N802
        recv_end = _Conn(self._w)
        send_end = _Conn(self._w, recv_end.state)
        recv_end.state["send_end"] = send_end
        return recv_end, send_end

    def Process(self, target=None, args=(), name=None):  # noqa: N802
        return _Process(self._w, target, args, name)


def scripted_run_pynguin_factory(world):
    def run_pynguin():
        fate, rc = world.current
        if fate in (DIE_IN_RUN,):
            raise _ProcessDied
        if fate == INTERRUPTED:
            raise KeyboardInterrupt
        if fate == RAISES:
            raise RuntimeError("stub: pynguin failed")
        return RCS[rc] if rc < len(RCS) else RCS[0]

    return run_pynguin


_BASE_CONFIG = config.Configuration(project_path="", module_name="stub",
                                    test_case_output=config.TestCaseOutputConfiguration(output_path=""))
_REAL = (master_mod.mp, master_mod.time, worker_mod.run_pynguin)


class Spy:
    """Records the WorkerResult that MasterProcess.get_result hands to the client."""

    def __init__(self):
        self.results = []


def run(world, max_search_time, use_master_worker):
    """Run the real ``run_pynguin_with_master_worker`` in the stub world; returns (return code, spy)."""
    cfg = _BASE_CONFIG
    cfg.stopping.maximum_search_time = max_search_time
    cfg.subprocess = False
    cfg.subprocess_if_recommended = True
    cfg.use_master_worker = use_master_worker
    config.configuration = cfg
    world.configuration = cfg
    spy = Spy()
    real_get = master_mod.MasterProcess.get_result

    def get_result(self, task_id):
        r = real_get(self, task_id)
        spy.results.append(r)
        return r

    master_mod.mp = FakeMP(world)
    master_mod.time = FakeTime(world)
    worker_mod.run_pynguin = scripted_run_pynguin_factory(world)
    master_mod.MasterProcess.get_result = get_result
    try:
        rc = client_mod.run_pynguin_with_master_worker(cfg)
    finally:
        master_mod.mp, master_mod.time, worker_mod.run_pynguin = _REAL
        master_mod.MasterProcess.get_result = real_get
    return rc, spy
