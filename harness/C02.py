"""C02 — reported line coverage equals the lines the interpreter actually executed.

F-diff (CrossHair): corpus functions run uninstrumented under ``sys.monitoring`` (LINE
events of the interpreter = ground truth) and instrumented by the real transformer
(every metric subset containing LINE, seeding on) on the same symbolic arguments: the set
of reported covered lines inside the function equals the set of executed lines, and every
reported line id is a registered line of the corpus file.  Plus a concrete registry
obligation: the registered lines of every code object equal the lines CPython assigns to
its instructions (``co_lines``), minus lines that only hold RESUME/END_FOR.
"""
from __future__ import annotations

from engines.prelude import pick, reach, realize
from harness import _fdiff as F

PROPERTY = "C02"

II = ("classify", "chained", "lookup", "loops", "comprehension", "gen", "closure", "useclass", "subscripts", "floats",
      "multiline", "initer", "slices", "neonly", "cmpnone", "tiny", "displays", "tryends", "superattr", "falsyexc", "withtry", "tryreturn", "oneline", "boollen")
SS = ("strfuncs",)
SSS = ("prefixes", "prefixarg")
def _args(fname, mask, args):
    """CHECKED instrumentation hands every loaded value to id()/type()-based memory
    bookkeeping and list slicing is modelled (not executed) by CrossHair: for those the
    arguments are realised first (solver-enumerated concrete cases, still exhaustive
    within the bound)."""
    if (mask & 4) or fname in ("slices",):
        return realize(args)
    return args


_CHECK = F.check_c02


def CHECK(fname, mask, args):
    if (mask & 4) or fname in ("slices",):
        # concrete execution of solver-chosen inputs: CrossHair's own tracer is kept out of the
        # CHECKED-instrumented run (it intercepts id()/type()/isinstance used by the memory bookkeeping)
        args = realize(args)
        try:
            from crosshair.tracers import NoTracing
        except ImportError:
            return _CHECK(fname, mask, args)
        from engines.prelude import in_crosshair

        if not in_crosshair():
            return _CHECK(fname, mask, args)
        with NoTracing():
            return _CHECK(fname, mask, args)
    return _CHECK(fname, mask, args)


def h_ii(f: int, mask: int, a: int, b: int) -> bool:
    """
    pre: 0 <= f < 24 and 0 <= mask < 8 and -3 <= a <= 3 and -3 <= b <= 3
    post: _
    """
    return reach(CHECK(pick(II, f), mask, (a, b)))


def h_bbb(mask: int, a: bool, b: bool, c: bool) -> bool:
    """
    pre: 0 <= mask < 8
    post: _
    """
    return reach(CHECK("boolops", mask, (a, b, c)))


def h_in(mask: int, a: int, b: int, bnone: bool) -> bool:
    """
    pre: 0 <= mask < 8 and -3 <= a <= 3 and -3 <= b <= 3
    post: _
    """
    return reach(CHECK("nonecheck", mask, (a, None if bnone else b)))


def h_ib(mask: int, a: int, b: bool) -> bool:
    """
    pre: 0 <= mask < 8 and -3 <= a <= 3
    post: _
    """
    return reach(CHECK("matcher", mask, (a, b)))


def h_i(f: int, mask: int, a: int) -> bool:
    """
    pre: 0 <= f < 2 and 0 <= mask < 8 and -3 <= a <= 3
    post: _
    """
    return reach(CHECK(pick(("withctx", "raises"), f), mask, (a,)))


def h_ss(mask: int, s: str, t: str) -> bool:
    """
    pre: 0 <= mask < 8 and len(s) <= 2 and len(t) <= 2
    post: _
    """
    return reach(CHECK("strfuncs", mask, (s, t)))


def h_si(mask: int, s: str, n: int) -> bool:
    """
    pre: 0 <= mask < 8 and len(s) <= 2 and 0 <= n <= 2
    post: _
    """
    return reach(CHECK("emptyprefix", mask, (s, n)))


def h_sss(f: int, mask: int, s: str, t: str, u: str) -> bool:
    """
    pre: 0 <= f < 2 and 0 <= mask < 8 and len(s) <= 2 and len(t) <= 1 and len(u) <= 1
    post: _
    """
    return reach(CHECK(pick(SSS, f), mask, (s, t, u)))


META = {
    "level": "model_checking",
    "claim": "Bounded model checking by symbolic execution of original vs. really-instrumented corpus functions on shared "
             "symbolic arguments: for 22 corpus functions (branches, loops with break/continue/else, comprehensions, "
             "generators, closures, classes, try/except/else/finally, with, match, multi-line expressions, raising code), the 4 "
             "metric subsets containing LINE (seeding on), all int arguments in [-3,3], bools, strs of length <= 2, the lines "
             "reported covered equal the lines for which the interpreter itself emitted a LINE event, and every reported id "
             "belongs to the corpus file. Plus: registered lines == CPython's line table per code object.",
    "note": "Programs are a fixed corpus; ground truth is sys.monitoring on CPython 3.12.1 for the uninstrumented code object; "
            "lines of the function's own def statement (executed at import) are outside the comparison window.",
    "technique": "symbolic execution of original (under sys.monitoring) vs. instrumented code on shared symbolic arguments "
                 "(CrossHair+z3); counterexamples replayed concretely",
    "functions": ["LineCoverageInstrumentation.visit_node/visit_line/should_instrument_line (3.10/3.11/3.12 chain)",
                  "SubjectProperties.register_line/lineids_to_linenos", "ExecutionTracer.track_line_visit", "ExecutionTrace.merge "
                  "(import trace)"],
    "bounds": {"corpus": "corpus/C01_funcs.py", "ints": "[-3,3]", "str": "len <= 2", "metric subsets": "LINE with/without BRANCH, CHECKED"},
    "outside": ["programs outside the corpus", "other interpreter versions", "compute_line_coverage ratios (C10/C35)"],
    "assumptions": ["both runs branch on the same symbolic conditions (one CrossHair path = one concrete path through both)"],
}


def obligations(tier: str):
    from engines.runner import Chx, Py

    q = tier == "quick"
    T = 120 if q else 900
    allmasks = [2, 3, 6, 7]

    def masks(i: int):
        """quick: the smallest and the largest metric subset plus one rotating subset per
        function; thorough: every subset."""
        if not q:
            return allmasks
        return sorted({allmasks[0], allmasks[-1], allmasks[1 + i % (len(allmasks) - 2)]})

    rng = {"a": [-2, -1, 0, 1, 2]} if q else {}
    obs = []
    for i, _name in enumerate(II):
        obs.append(Chx(f"ii_{_name}", h_ii, timeout=T, fix={"f": i}, split={"mask": masks(i)}, path_timeout=30))
    obs += [
        Chx("bbb", h_bbb, timeout=T, split={"mask": masks(1)}),
        Chx("in", h_in, timeout=T, split={"mask": masks(2)}),
        Chx("ib", h_ib, timeout=T, split={"mask": masks(3)}),
        Chx("i_withctx", h_i, timeout=T, fix={"f": 0}, split={"mask": masks(4)}),
        Chx("i_raises", h_i, timeout=T, fix={"f": 1}, split={"mask": masks(5)}),
        Chx("ss", h_ss, timeout=T, split={"mask": masks(6)}, path_timeout=30),
        Chx("si_emptyprefix", h_si, timeout=T, split={"mask": masks(0) if not q else sorted(set(masks(0)) | {allmasks[1]})}, path_timeout=30),
        Chx("sss_prefixes", h_sss, timeout=T, fix={"f": 0}, split={"mask": masks(7)}, path_timeout=30),
        Chx("sss_prefixarg", h_sss, timeout=T, fix={"f": 1}, split={"mask": masks(8)}, path_timeout=30),
    ]
    obs.append(Py("registry_lines_vs_co_lines", F.check_registry_lines))
    return obs
