"""C21 — kept assertions preserve mutant kills; mutation score in [0, 1].

* ``h_select``: the real ``_select_minimal_assertions`` on symbolic kill maps
  (<= 4 assertion keys x mutant subsets of {0..3}).
* ``h_score``: the real ``_MutationMetrics.get_score`` on symbolic counts.
* ``h_pipeline``: the real ``MutationAnalysisAssertionGenerator._handle_add_assertions``
  (``_abort_after_first_timeout``, ``__compute_mutation_summary``, ``__report_mutation_summary``,
  ``__remove_non_relevant_assertions``, ``__minimize_assertions``, ``__build_kill_map``) on two
  stub tests made of real ``Statement``/``Assertion`` objects and real ``ExecutionResult``s whose
  per-mutant outcome (invalid module, timeout, which assertions are violated, test exception)
  is symbolic.  Only the execution of tests on mutants is stubbed.

"Every kept assertion holds when re-executed on the unmutated module" needs real executions
and is outside this check.
"""
from __future__ import annotations

import logging

import libcst as cst

import pynguin.assertion.assertion as ass
import pynguin.assertion.assertiongenerator as ag
import pynguin.configuration as config
from engines.prelude import pick, reach, vacuous
from pynguin.testcase.execution_result import ExecutionResult
from pynguin.testcase.testcase import Statement
from pynguin.utils.statistics.runtimevariable import RuntimeVariable

PROPERTY = "C21"

# ---------------------------------------------------------------- _select_minimal_assertions
_KEYS = ((0, 0), (0, 1), (1, 0), (2, 1))  # (stmt_idx, assertion_idx), ascending
_SUBSETS = tuple(frozenset(j for j in range(4) if (m >> j) & 1) for m in range(16))


def _union(kill_map, keys):
    out = set()
    for k in keys:
        out |= kill_map[k]
    return out


def _select_ok(kill_map) -> bool:
    """The set-cover contract of one call, written from the property statement."""
    pristine = {k: set(v) for k, v in kill_map.items()}
    keep = ag._select_minimal_assertions(kill_map)
    if {k: set(v) for k, v in kill_map.items()} != pristine:
        return False  # the caller's kill map must not be modified
    if not isinstance(keep, set) or not all(k in pristine for k in keep):
        return False  # a subset of the assertions
    if _union(pristine, keep) != _union(pristine, pristine):
        return False  # together still kill every mutant killed by the full set
    for k in keep:
        if pristine[k] <= _union(pristine, [o for o in keep if o != k]):
            return False  # minimal: no kept assertion is redundant (in particular none kills nothing)
    # deterministic: independent of the insertion order of the mapping
    items = list(pristine.items())
    for order in (items[::-1], items[1:] + items[:1]):
        if ag._select_minimal_assertions({k: set(v) for k, v in order}) != keep:
            return False
    return True


def h_select(nk: int, nm: int, m0: int, m1: int, m2: int, m3: int) -> bool:
    """
    pre: 0 <= nk <= 4 and 2 <= nm <= 4
    pre: 0 <= m0 <= 15 and 0 <= m1 <= 15 and 0 <= m2 <= 15 and 0 <= m3 <= 15
    pre: nm == 4 or (m0 <= 7 and m1 <= 7 and m2 <= 7 and m3 <= 7)
    pre: nm >= 3 or (m0 <= 3 and m1 <= 3 and m2 <= 3 and m3 <= 3)
    post: _
    """
    masks = (m0, m1, m2, m3)
    kill_map = {_KEYS[i]: set(pick(_SUBSETS, masks[i])) for i in range(nk)}
    return reach(_select_ok(kill_map))


def py_select_exhaustive(nk: int, nm: int):
    """Direct enumeration of every kill map with ``nk`` keys over ``nm`` mutants (concrete, real code)."""
    import itertools

    def run():
        keys = [(i // 2, i % 2) for i in range(nk)]
        subsets = [frozenset(j for j in range(nm) if (m >> j) & 1) for m in range(2 ** nm)]
        cases = nontrivial = 0
        for combo in itertools.product(subsets, repeat=nk):
            cases += 1
            km = {k: set(s) for k, s in zip(keys, combo)}
            if any(combo):
                nontrivial += 1
            if not _select_ok(km):
                return {"ok": False, "cases": cases, "nontrivial": nontrivial, "violation": {"kill_map": repr(km)},
                        "detail": f"_select_minimal_assertions violates the set-cover contract on {km!r}"}
        return {"ok": True, "cases": cases, "nontrivial": nontrivial, "detail": f"all {cases} kill maps",
                "samples": []}

    return run


def py_select_weighted(nk: int, nm: int, w: int, fix_first: bool):
    """Every kill map with ``nk`` assertions that each kill exactly ``w`` of ``nm`` mutants (overlapping covers:
    the shape in which two kept assertions can be redundant only thanks to each other).  With ``fix_first`` the
    first assertion kills mutants 0..w-1 (the remaining maps are renamings of these)."""
    import itertools

    def run():
        keys = [(i // 2, i % 2) for i in range(nk)]
        subsets = [frozenset(c) for c in itertools.combinations(range(nm), w)]
        firsts = [subsets[0]] if fix_first else subsets
        cases = 0
        for first in firsts:
            for combo in itertools.product(subsets, repeat=nk - 1):
                cases += 1
                km = {k: set(s) for k, s in zip(keys, (first, *combo))}
                if not _select_ok(km):
                    return {"ok": False, "cases": cases, "nontrivial": cases, "violation": {"kill_map": repr(km)},
                            "detail": f"_select_minimal_assertions violates the set-cover contract on {km!r}"}
        return {"ok": True, "cases": cases, "nontrivial": cases, "samples": [],
                "detail": f"all {cases} kill maps with {nk} assertions killing {w} of {nm} mutants each"}

    return run


# ---------------------------------------------------------------- _MutationMetrics.get_score
def h_score(created: int, killed: int, timeout: int) -> bool:
    """
    pre: 0 <= created <= 6 and 0 <= killed <= 6 and 0 <= timeout <= 6
    post: _
    """
    if killed + timeout > created:
        return vacuous()  # killed and timed-out mutants are disjoint subsets of the checked ones
    score = ag._MutationMetrics(created, killed, timeout).get_score()
    checked = created - timeout
    if checked == 0:
        return reach(score == 1.0)  # defined when every mutant timed out / none exists
    return reach(0 <= score <= 1 and abs(score * checked - killed) < 1e-9)


# ---------------------------------------------------------------- the assertion-filtering pipeline
_NODE = cst.parse_statement("var_0 = 1")


class _Test:
    def __init__(self, stmts):
        self._stmts = stmts

    def statements(self):
        return self._stmts


class _Recorder:
    """Stands in for pynguin.utils.statistics.stats: records what the generator reports."""

    def __init__(self):
        self.vals = {}

    def track_output_variable(self, var, value):
        self.vals[var] = value


class _Controller:
    def __init__(self, n):
        self.n = n

    def mutant_count(self):
        return self.n


# slots: test 0 has statement 0 with two value assertions and statement 1 with one assertion
# (a value assertion or an exception assertion); test 1 has one statement with one value assertion.
_SLOTS = ((0, 0, 0), (0, 0, 1), (0, 1, 0), (1, 0, 0))  # (test, stmt_idx, assertion_idx)
_PATTERNS = tuple(tuple(bool((p >> j) & 1) for j in range(4)) for p in range(16))


def _result(bits, test, exc):
    r = ExecutionResult()
    for i, ((t, s, a), b) in enumerate(zip(_SLOTS, bits)):
        if t == test and b:
            # even slots are recorded as failed assertions, odd ones as errors while checking the assertion
            (r.assertion_verification_trace.error if i % 2 else r.assertion_verification_trace.failed)[s].add(a)
    if exc:
        r.report_new_thrown_exception(0, ValueError("x"))
    return r


def _decode_mutant(state, p, exc):
    # the violation pattern only exists for mutants on which test 0 ran to its end
    if state == 1:
        return (1, pick(_PATTERNS, p), exc)
    if state == 3:
        return (3, pick(_PATTERNS, p), False)
    return (2 if state == 2 else 0, _PATTERNS[0], False)


def h_nonholding(n0: int, n1: int, s00: int, s01: int, s02: int, s10: int, s11: int, s12: int) -> bool:
    """
    pre: 0 <= n0 <= 3 and 0 <= n1 <= 3
    pre: 0 <= s00 <= 2 and 0 <= s01 <= 2 and 0 <= s02 <= 2 and 0 <= s10 <= 2 and 0 <= s11 <= 2 and 0 <= s12 <= 2
    post: _
    """
    # the filtering pass of the base generator: after the verification run, exactly the assertions that neither failed
    # (status 1) nor raised (status 2) stay on their statements, in their order
    from pynguin.assertion.assertion_trace import AssertionVerificationTrace

    status = [[s00, s01, s02][:n0], [s10, s11, s12][:n1]]
    pool = [[ass.ObjectAssertion("var_0", 10 * i + j) for j in range(3)] for i in range(2)]
    stmts = [Statement(_NODE, assertions=list(pool[i][:len(status[i])])) for i in range(2)]
    trace = AssertionVerificationTrace()
    for i in range(2):
        for j, st in enumerate(status[i]):
            if st == 1:
                trace.failed[i].add(j)
            elif st == 2:
                trace.error[i].add(j)
    result = ExecutionResult()
    result.assertion_verification_trace = trace
    ag.AssertionGenerator._AssertionGenerator__remove_non_holding_assertions(_Test(stmts), result)  # noqa: SLF001
    ok = True
    for i in range(2):
        want = [pool[i][j] for j, st in enumerate(status[i]) if st == 0]
        got = list(stmts[i].assertions)
        ok = ok and len(got) == len(want) and all(g is w for g, w in zip(got, want))
    return reach(ok)


def h_pipeline(minimize: bool, exc_stmt: bool, cut: bool, created: int,
               s0: int, p0: int, e0: bool, s1: int, p1: int, s2: int, p2: int) -> bool:
    """
    pre: 0 <= created <= 3
    pre: 0 <= s0 <= 3 and 0 <= s1 <= 3 and 0 <= s2 <= 3
    pre: 0 <= p0 <= 15 and 0 <= p1 <= 15 and 0 <= p2 <= 15
    post: _
    """
    return reach(_pipeline_ok(minimize, exc_stmt, cut, created, [(s0, p0, e0), (s1, p1, False), (s2, p2, False)]))


def _pipeline_ok(minimize, exc_stmt, cut, created, mutants) -> bool:  # noqa: C901
    # per mutant i: s_i = 0 invalid module (never executed), 1 executed normally, 2 timeout in test 0,
    # 3 timeout in test 1;  p_i = which of the 4 assertion slots it violates;  e = test 0 raises on it.
    # `cut`: the mutation time budget ends the loop before the last created mutant.
    config.configuration.test_case_output.assertion_minimization = minimize
    a0, a1 = ass.ObjectAssertion("var_0", 1), ass.TypeNameAssertion("var_0", "builtins", "int")
    a2 = ass.ExceptionAssertion("builtins", "ValueError") if exc_stmt else ass.ObjectAssertion("var_1", 2)
    b0 = ass.ObjectAssertion("var_0", 3)
    tests = [_Test([Statement(_NODE, assertions=[a0, a1]), Statement(_NODE, assertions=[a2])]),
             _Test([Statement(_NODE, assertions=[b0])])]
    original = {0: [[a0, a1], [a2]], 1: [[b0]]}
    budget = created - 1 if cut else created
    muts = [_decode_mutant(*m) for m in mutants[:created]]

    gen = object.__new__(ag.MutationAnalysisAssertionGenerator)
    gen._logger = logging.getLogger("verif.C21")
    gen._testing = True
    gen._mutation_controller = _Controller(created)
    rec = _Recorder()
    ag.stat = rec

    def execute_on_mutants(test_cases, mutant_count):
        for idx, (state, bits, exc) in enumerate(muts):
            if idx >= budget:
                break
            if state == 0:
                yield None
                continue
            r0 = _result(bits, 0, exc)
            r1 = _result(bits, 1, False)
            r0.timeout = state == 2
            r1.timeout = state == 3
            # the real early-abort generator on top of a lazy per-test result stream
            yield ag.MutationAnalysisAssertionGenerator._abort_after_first_timeout(iter([r0, r1]), len(test_cases))

    gen._execute_test_case_on_mutants = execute_on_mutants
    gen._handle_add_assertions(tests)

    # ---- oracle (from the property statement) ----
    checked = [m for m in muts[:budget] if m[0] != 0]
    valid = [m for m in checked if m[0] == 1]  # executed, no timeout
    killed = [m for m in valid if any(m[1]) or m[2]]
    want_score = 1.0 if not valid else len(killed) / len(valid)
    score = rec.vals.get(RuntimeVariable.MutationScore)
    ok = score is not None and 0 <= score <= 1 and score == want_score
    ok = ok and rec.vals.get(RuntimeVariable.NumberOfCreatedMutants) == created
    ok = ok and rec.vals.get(RuntimeVariable.NumberOfCheckedMutants) == len(checked)
    ok = ok and rec.vals.get(RuntimeVariable.NumberOfKilledMutants) == len(killed)
    ok = ok and rec.vals.get(RuntimeVariable.NumberOfTimedOutMutants) == len(checked) - len(valid)
    if not ok:
        return False

    for t in (0, 1):
        kept_slots = []
        for s, stmt in enumerate(tests[t].statements()):
            orig = original[t][s]
            # kept assertions are a sub-sequence of the original ones (same objects, same order)
            pos = -1
            for a in stmt.assertions:
                nxt = [i for i in range(pos + 1, len(orig)) if orig[i] is a]
                if not nxt:
                    return False
                pos = nxt[0]
                kept_slots.append((t, s, pos))
            exc_only = len(orig) == 1 and isinstance(orig[0], ass.ExceptionAssertion)
            if minimize and exc_only and len(stmt.assertions) != 1:
                return False  # statements with only an exception assertion are left untouched

        def kills(slot):
            return {i for i, m in enumerate(valid) if m[1][_SLOTS.index(slot)]}

        slots_t = [sl for sl in _SLOTS if sl[0] == t]
        if minimize:
            considered = [sl for sl in slots_t
                          if not (len(original[t][sl[1]]) == 1 and isinstance(original[t][sl[1]][0], ass.ExceptionAssertion))]
            kept = [sl for sl in kept_slots if sl in considered]
            all_kills = set().union(*[kills(sl) for sl in considered]) if considered else set()
            kept_kills = set().union(*[kills(sl) for sl in kept]) if kept else set()
            if kept_kills != all_kills:
                return False  # kept assertions still kill every mutant killed by the full set
            for sl in kept:
                others = set().union(*[kills(o) for o in kept if o != sl]) if len(kept) > 1 else set()
                if kills(sl) <= others:
                    return False  # minimal: nothing redundant, nothing that kills no mutant
        else:
            # plain filtering: an assertion stays iff some valid mutant violates it
            for sl in slots_t:
                if (sl in kept_slots) != bool(kills(sl)):
                    return False
    return True


def py_pipeline_exhaustive(max_created: int):
    """Direct enumeration of every outcome matrix with up to ``max_created`` mutants (concrete, real code)."""
    import itertools

    def run():
        per_first = [(0, 0, False), (2, 0, False)] + [(1, p, e) for p in range(16) for e in (False, True)] + \
                    [(3, p, False) for p in range(16)]
        per_other = [m for m in per_first if not m[2]]
        cases = nontrivial = 0
        for created in range(max_created + 1):
            spaces = ([per_first] + [per_other] * (created - 1)) if created else []
            for combo in itertools.product(*spaces):
                mutants = list(combo) + [(0, 0, False)] * (3 - created)
                for minimize, exc_stmt, cut in itertools.product((False, True), repeat=3):
                    cases += 1
                    if any(m[0] == 1 and m[1] for m in combo):
                        nontrivial += 1
                    if not _pipeline_ok(minimize, exc_stmt, cut, created, mutants):
                        kw = {"minimize": minimize, "exc_stmt": exc_stmt, "cut": cut, "created": created,
                              "s0": mutants[0][0], "p0": mutants[0][1], "e0": mutants[0][2], "s1": mutants[1][0],
                              "p1": mutants[1][1], "s2": mutants[2][0], "p2": mutants[2][1]}
                        return {"ok": False, "cases": cases, "nontrivial": nontrivial, "cex": kw, "violation": kw,
                                "detail": f"assertion-filtering pipeline violates the contract for h_pipeline(**{kw!r})"}
        return {"ok": True, "cases": cases, "nontrivial": nontrivial, "detail": f"all {cases} outcome matrices", "samples": []}

    return run


META = {
    "level": "model_checking",
    "claim": "Bounded model checking by symbolic execution of the real assertion-minimisation code: for every kill map "
             "with <=3 assertion keys over 4 mutants and <=4 keys over 2 (quick) / 4 (thorough) mutants, "
             "_select_minimal_assertions returns a subset of the keys whose kill sets cover exactly the union of all "
             "kill sets, contains no redundant key, does not modify its input and is independent of dict order; "
             "_MutationMetrics.get_score is killed/(created-timeout) in [0,1] and 1.0 when nothing was checked; and for "
             "every outcome matrix of <=2 (quick) / <=3 (thorough) mutants x 2 tests x 4 assertions (invalid module, "
             "timeout in either test, mutation-time budget cut, any violation pattern, test exception) the real "
             "_handle_add_assertions pipeline reports a score in [0,1] that ignores timed-out and unchecked mutants and "
             "leaves assertions that still kill every valid mutant killed before (minimisation on) / exactly the "
             "violated assertions (minimisation off).",
    "note": "Trusts CPython 3.12.1, CrossHair's models and z3.  The clause 'every assertion left on a test case holds when "
            "re-executed on the unmutated module' needs real executions and is outside this check; executing tests on "
            "mutants is stubbed by a symbolic outcome matrix, statistics reporting by a recorder.",
    "functions": ["AssertionGenerator.__remove_non_holding_assertions", "pynguin.assertion.assertiongenerator._select_minimal_assertions", "_MutationMetrics.get_score",
                  "_MutationSummary.get_killed/get_timeout/get_metrics",
                  "MutationAnalysisAssertionGenerator._handle_add_assertions", "._abort_after_first_timeout",
                  ".__compute_mutation_summary", ".__report_mutation_summary", ".__remove_non_relevant_assertions",
                  ".__minimize_assertions", ".__build_kill_map", "AssertionVerificationTrace.merge/was_violated",
                  "Statement.has_only_exception_assertion"],
    "bounds": {"select": "quick: <=3 keys x subsets of 4 mutants, 4 keys x subsets of 2 mutants; thorough: <=4 keys x 4 mutants "
                         "(+ direct enumeration of 4 keys x 4 mutants quick, 5 keys x 4 mutants thorough)",
               "score": "created, killed, timeout in [0,6]",
               "pipeline": "2 tests (2+1 and 1 statements; 4 assertions), <=2 (quick) / <=3 (thorough, no test exceptions) mutants, "
                           "4 outcome states x 16 violation patterns x exception flag per mutant, budget cut in [0,3], "
                           "failed-vs-error trace, exception-only statement or not, minimisation on/off"},
    "outside": ["assertions hold on re-execution on the unmutated module (needs real executions)",
                "larger kill maps / more mutants", "duplicate (equal) assertions on one statement",
                "SubprocessTestCaseExecutor result shape (no early abort)"],
    "assumptions": ["kill-map subsets / violation patterns are decoded from selectors through concrete tables: these "
                    "obligations are solver-enumerated concrete cases, exhaustive within the bound when 'confirmed'",
                    "a mutant's execution yields one ExecutionResult per test until the first timeout (in-process executor)"],
}


def obligations(tier: str):
    from engines.runner import Chx, Py

    q = tier == "quick"
    T = 150 if q else 900
    obs = [
        Chx("score", h_score, timeout=T),
        Chx("nonholding", h_nonholding, timeout=T, split={"n0": [0, 1, 2, 3]}),
        Chx("select_k012", h_select, timeout=T, fix={"nm": 4}, split={"nk": [0, 1, 2]}),
        Chx("pipeline_m01", h_pipeline, timeout=T, split={"created": [0, 1]}),
    ]
    if q:
        obs += [
            Chx("select_k3", h_select, timeout=T, fix={"nk": 3, "nm": 3}, split={"m0": [0, 1, 2, 3, 4, 5, 6, 7]}),
            Chx("select_k4", h_select, timeout=T, fix={"nk": 4, "nm": 2}, split={"m0": [0, 1, 2, 3]}),
            Py("select_enum_k4", py_select_exhaustive(4, 4), replay_fn=None),
            Py("select_enum_k4_m7_w3", py_select_weighted(4, 7, 3, True), replay_fn=None),
            Chx("pipeline_m2", h_pipeline, timeout=T, fix={"created": 2, "minimize": True, "cut": False, "e0": False},
                split={"exc_stmt": [False, True], "s0": [1, 3]}),
            Py("pipeline_enum_m2", py_pipeline_exhaustive(2), replay_fn=h_pipeline),
        ]
    else:
        obs += [
            Chx("select_k3", h_select, timeout=T, fix={"nk": 3, "nm": 4}, split={"m0": list(range(16))}),
            Chx("select_k4", h_select, timeout=T, fix={"nk": 4, "nm": 3}, split={"m0": list(range(8))}),
            Py("select_enum_k5", py_select_exhaustive(5, 4), replay_fn=None),
            Py("select_enum_k4_m7_w3_all", py_select_weighted(4, 7, 3, False), replay_fn=None),
            Chx("pipeline_m2", h_pipeline, timeout=T, fix={"created": 2},
                split={"minimize": [False, True], "exc_stmt": [False, True], "cut": [False, True], "s0": [0, 1, 2, 3]}),
            Py("pipeline_enum_m3", py_pipeline_exhaustive(3), replay_fn=h_pipeline),
        ]
    return obs
