"""Private helpers of harness/C23.py: value tables, bit-exact comparison, symbolic random
tape (family F-tape), stub constant provider, source tables for mutation.

Everything here is plain Python that behaves identically under CrossHair and in the
concrete replay.  libcst nodes in the tables are parsed once, concretely, at import.
"""
from __future__ import annotations

import builtins
import os
import sys
import math
import random
import string

import libcst as cst

import pynguin.configuration as config
from engines.prelude import pick
from pynguin.analyses.constants import ConstantProvider
from pynguin.utils import randomness
from pynguin.utils.orderedset import OrderedSet

LAST = [""]  # reason of the last failed verdict (debugging aid only)
_MODULE = cst.Module(body=[])

INF = float("inf")
NAN = float("nan")


def fail(msg: str) -> bool:
    LAST[0] = msg
    if os.environ.get("C23_DEBUG"):
        print("C23 fail:", msg, file=sys.stderr)
    return False


def untraced(fn, *args):
    """Call ``fn(*args)`` on realised (concrete) arguments with CrossHair's tracing switched off.

    Used where the whole computation is behind C boundaries anyway (str/repr, regular
    expressions, libcst's native parser, compile/eval): with concrete inputs the untraced run
    is the run CrossHair would trace, at a fraction of the cost.  Plain call outside CrossHair."""
    try:
        from crosshair.core import deep_realize
        from crosshair.statespace import optional_context_statespace
        from crosshair.tracers import NoTracing
    except ImportError:
        return fn(*args)
    if optional_context_statespace() is None:
        return fn(*args)
    args = deep_realize(args)
    with NoTracing():
        return fn(*args)


# ------------------------------------------------------------------ bit-exact comparison
def same(v, w) -> bool:
    """Same type and same value, bit for bit (signed zeros distinguished, NaN == NaN)."""
    if type(v) is not type(w):
        return False
    if isinstance(v, float):
        if v != v or w != w:
            return v != v and w != w
        return v == w and math.copysign(1.0, v) == math.copysign(1.0, w)
    if isinstance(v, complex):
        return same(v.real, w.real) and same(v.imag, w.imag)
    if isinstance(v, (list, tuple)):
        return len(v) == len(w) and all(same(x, y) for x, y in zip(v, w))
    if isinstance(v, (set, frozenset)):
        return len(v) == len(w) and all(any(same(x, y) for y in w) for x in v)
    if isinstance(v, dict):
        if len(v) != len(w):
            return False
        for k, val in v.items():
            if not any(same(k, k2) and same(val, v2) for k2, v2 in w.items()):
                return False
        return True
    return v == w


def code_of(node) -> str:
    return _MODULE.code_for_node(node)


def evaluate(code: str, extra: dict | None = None):
    """Compile and evaluate generated source in a namespace holding only the builtins
    (what an exported test module offers to a literal) plus ``extra`` (pool variables)."""
    compiled = compile(code, "<literal>", "eval")
    ns = {"__builtins__": builtins}
    if extra:
        ns.update(extra)
    return eval(compiled, ns)  # noqa: S307


# ------------------------------------------------------------------ value tables
INT_BASES = (0, 7, -7, 255, -256, 2**31, -(2**31), 2**63, -(2**63), 2**64 + 1, 10**22, -(10**40))

# finite, normal magnitudes; each exercises a different repr() shape
FINITE_MAGS = (1.0, 0.1, 2.5, 1e15, 1e16, 1e22, 1.5e-07, 123456789.125, 9007199254740992.0, 9007199254740993.0,
               1.7976931348623157e308, 2.2250738585072014e-308)
SUBNORMAL_MAGS = (5e-324, 1e-310, 2.225073858507201e-308)


def mk_float(cls: int, sign: int, m: int) -> float:
    """cls: 0 zero, 1 subnormal, 2 finite normal, 3 inf, 4 nan."""
    if cls == 0:
        mag = 0.0
    elif cls == 1:
        mag = pick(SUBNORMAL_MAGS, m)
    elif cls == 2:
        mag = pick(FINITE_MAGS, m)
    elif cls == 3:
        mag = INF
    else:
        return NAN
    if sign == 1:
        return -mag
    return mag


STR_ALPHABET = ("a", "'", '"', "\\", "\n", "\x00", "\U0001F600", "\ud800", "\xe9", " ")
BYTES_ALPHABET = (0x61, 0x27, 0x22, 0x5C, 0x0A, 0x00, 0xFF, 0x80, 0x0D, 0x7F)

# Elements of collections.  Codes >= FIRST_SPECIAL contain a negative zero, a non-finite
# float or a complex number (the classes for which findings are recorded).
ELEMENTS = (
    0, -3, True, 1, 2**64, "a", "'\"\\\n", b"\x00\xff", 1.5, -2.5e-07, 1e22,  # 0..10  hashable scalars
    (), (1,), (1, "x"), ((-1,),),                                            # 11..14 hashable tuples
    [], [1, [2.5]], {"k": 1}, {1, "a"}, set(), {"d": {"e": (False,)}},       # 15..20 unhashable
    -0.0, (-0.0,), [1, -0.0],                                                # 21..23 negative zero
    INF, NAN, -INF, complex(1.0, 2.0), (INF,), [complex(0.0, -1.5)],           # 24..29 non-finite / complex
)
FIRST_UNHASHABLE, FIRST_NEGZERO, FIRST_NONFINITE = 15, 21, 24
UNHASHABLE_CODES = (15, 16, 17, 18, 19, 20, 23, 29)
DICT_KEYS = (0, True, "a", "'\\", b"k", 1.5, (1, "x"), -0.0, NAN)   # 7, 8 special
DICT_KEY_FIRST_SPECIAL = 7
DICT2_VALUE_CODES = (0, 6, 13, 16, 21, 24)


def fresh(value):
    """A fresh deep copy of a table element (containers are mutable)."""
    if isinstance(value, list):
        return [fresh(x) for x in value]
    if isinstance(value, tuple):
        return tuple(fresh(x) for x in value)
    if isinstance(value, set):
        return {fresh(x) for x in value}
    if isinstance(value, dict):
        return {fresh(k): fresh(x) for k, x in value.items()}
    return value


# ------------------------------------------------------------------ F-tape
LEVELS = 8
GAUSS = (0.0, -1.2e-06, 0.4, -1.0, 2.5, -3.75, 0.001, -0.26)
BYTE_DRAWS = (0x00, 0x27, 0x5C, 0x0A, 0xFF, 0x22, 0x61, 0x80)
_PRINTABLE_IDX = tuple(string.printable.index(ch) for ch in ("a", "'", '"', "\\", "\n", "\x0c", "{", "0"))
DEFAULT_DRAW = 4


class Tape(random.Random):
    """``randomness.RNG`` replacement: every primitive draw pops one explicit (symbolic) int
    in [0, LEVELS) and maps it into the requested range; after the tape is exhausted every
    draw is ``tail`` (also an explicit, possibly symbolic, int in [0, LEVELS)).  Each result is
    one a real ``random.Random`` could return."""

    def __init__(self, draws, tail=DEFAULT_DRAW):
        super().__init__(0)
        self._draws = list(draws)
        self._tail = tail
        self.used = 0

    def seed(self, a=None, version=2):  # noqa: ARG002
        super().seed(0)

    def get_seed(self) -> int:
        return 0

    def _pop(self):
        i = self.used
        self.used += 1
        if i < len(self._draws):
            return self._draws[i]
        return self._tail

    def random(self):
        return self._pop() / LEVELS

    def uniform(self, a, b):
        return a + (b - a) * self.random()

    def _index(self, n: int) -> int:
        k = self._pop()
        if n == len(string.printable):
            return pick(_PRINTABLE_IDX, k)
        # fork into concrete residues: the result indexes concrete tables
        for j in range(min(n, LEVELS) - 1):
            if k % n == j:
                return j
        return min(n, LEVELS) - 1

    def randrange(self, start, stop=None, step=1):  # noqa: ARG002
        if stop is None:
            start, stop = 0, start
        width = stop - start
        if width <= 0:
            raise ValueError(f"empty range for randrange() ({start}, {stop}, {width})")
        return start + self._index(width)

    def choice(self, seq):
        if not len(seq):
            raise IndexError("Cannot choose from an empty sequence")
        return seq[self._index(len(seq))]

    def gauss(self, mu=0.0, sigma=1.0):
        return mu + sigma * pick(GAUSS, self._pop())

    def getrandbits(self, k):
        return pick(BYTE_DRAWS, self._pop()) & ((1 << k) - 1)


def install_tape(draws, tail=DEFAULT_DRAW) -> Tape:
    tape = Tape(draws, tail)
    randomness.RNG = tape
    return tape


# ------------------------------------------------------------------ configuration
PERTURBATION = (0.0, 0.2, 1.0)


def set_config(cfg: int, pert: int = 1) -> None:
    """cfg 0: defaults of pynguin.configuration; 1: smallest admissible sizes, all probabilities 0;
    2: large sizes, all probabilities 1.  pert: search_algorithm.random_perturbation in
    PERTURBATION (0 never replace, 1 default 0.2, 2 always replace)."""
    c = config.configuration
    tc, sd, ss, sa = c.test_creation, c.seeding, c.string_statement, c.search_algorithm
    if cfg == 0:
        tc.max_int, tc.max_delta, tc.string_length, tc.bytes_length, tc.collection_size = 2048, 20, 20, 20, 5
        tc.collection_reference_probability = 0.5
        sd.seeded_primitives_reuse_probability = 0.2
        ss.token_assembly_probability, ss.max_assembled_tokens = 0.2, 4
    elif cfg == 1:
        tc.max_int, tc.max_delta, tc.string_length, tc.bytes_length, tc.collection_size = 1, 1, 1, 1, 1
        tc.collection_reference_probability = 0.0
        sd.seeded_primitives_reuse_probability = 0.0
        ss.token_assembly_probability, ss.max_assembled_tokens = 0.0, 1
    else:
        tc.max_int, tc.max_delta, tc.string_length, tc.bytes_length, tc.collection_size = 2**70, 10**6, 4, 3, 50
        tc.collection_reference_probability = 1.0
        sd.seeded_primitives_reuse_probability = 1.0
        ss.token_assembly_probability, ss.max_assembled_tokens = 1.0, 2
    sa.random_perturbation = pick(PERTURBATION, pert)


# ------------------------------------------------------------------ stub constant provider
CONSTANTS = {
    int: (None, 0, -7, 2**64, -(2**63), 1),
    float: (None, -0.0, INF, NAN, -1e22, 1.5e-07),
    complex: (None, complex(-0.0, INF), complex(NAN, -2.0), 1j, complex(1e22, -1e-07), 0j),
    str: (None, "", "'", '"\\\n', "a\x00\U0001F600", "-"),
    bytes: (None, b"", b"'\"", b"\\\n\x00", b"\xff", b"ab"),
}
STR_POOLS = ((), ("ab",), ("ab", "'"), ("x\\", "\n", "-"))


class Provider(ConstantProvider):
    """Seeded constants chosen by explicit selectors (the first calls pop ``sels``; later
    calls return entry 1 of the table).  Entry 0 of every table is ``None`` (nothing seeded)."""

    def __init__(self, sels, pool_sel):
        self._sels = list(sels)
        self.calls = 0
        self._pool_sel = pool_sel

    def get_constant_for(self, tp_):
        table = CONSTANTS.get(tp_)
        if table is None:
            return None
        i = self.calls
        self.calls += 1
        if i < len(self._sels):
            return pick(table, self._sels[i])
        return table[1]

    def get_all_constants_for(self, tp_):
        if tp_ is str:
            return OrderedSet(pick(STR_POOLS, self._pool_sel))
        return OrderedSet()


# ------------------------------------------------------------------ literal types and mutation sources
TYPES = (bool, int, float, complex, str, bytes, list, tuple, set, dict)
POOL_VALUE = 7  # value of the pool variable ``v0`` (hashable, so that it may enter a set)
POOL = (cst.Name("v0"),)
ELEMENT_TYPES = (int, str, bool, float)


def _p(src: str):
    return cst.parse_expression(src)


def _built(value):
    from pynguin.testcase import literalgen

    return literalgen.literal_to_cst(value)


# Per type: expressions a statement of that bound type can carry.  Parsed sources are what the
# test-case deserializer admits for hand-written / LLM-written tests (it keeps the node verbatim and
# types it with ast.literal_eval); the last entries are not of the type at all (fallback path).
SOURCES = {
    bool: (_p("True"), _p("False"), _p("x"), _p("1")),
    int: (_p("5"), _p("-3"), _p("0"), _p("1_000"), _p("+5"), _p("x"), _p("0x1F"), _p("0o17"), _p("0b101")),
    float: (_p("1.5"), _p("-0.0"), _p("1e22"), _p("-1.5e-07"), _p(".5"), _p("5."), _p("1_0.5"), _built(INF),
            _built(1.7976931348623157e308), _p("x")),
    complex: (_p("complex(1.0, -2.0)"), _p("complex(1, 2)"), _built(complex(-0.0, 5e-324)), _built(complex(INF, NAN)),
              _p("1+2j"), _p("2j"), _p("x")),
    str: (_p("'abc'"), _p("''"), _p('"a\'b"'), _p("'\\n'"), _p("'\U0001F600'"), _p("'''q'''"), _p("r'\\d'"),
          _p("'a' 'b'"), _p("b'x'"), _p("x")),
    bytes: (_p("b'ab'"), _p("b''"), _p("'s'"), _p("x")),
    list: (_p("[]"), _p("[1]"), _p("[1, 'a']"), _p("[1,]"), _p("[v0, 2.5, True]"), _p("x")),
    tuple: (_p("()"), _p("(1,)"), _p("(1, 'a')"), _p("(1, 2, v0)"), _built((1,)), _built((1, 2)), _p("x"),
            _p("1,"), _p("1, 2")),
    set: (_p("set()"), _p("{1}"), _p("{1, 'a'}"), _built({1}), _p("{1,}"), _p("x"), _p("frozenset()")),
    dict: (_p("{}"), _p("{'a': 1}"), _p("{'a': 1, 'b': v0}"), _p("{'a': 1,}"), _built({"k": 2.5}), _p("x")),
}


def check_generated(expr, tp, what: str) -> bool:
    """Oracle for generate/mutate results: a libcst expression whose source is valid Python
    (CPython compiles it, libcst parses it) and evaluates to a value of exactly type ``tp``;
    collection elements are int/str/bool/float literals or the pool variable; dict keys are str."""
    if not isinstance(expr, cst.BaseExpression):
        return fail(f"{what}: not an expression: {expr!r}")
    try:
        code = code_of(expr)
        value = evaluate(code, {"v0": POOL_VALUE})
        cst.parse_expression(code)
    except Exception as e:  # noqa: BLE001
        return fail(f"{what}: {type(e).__name__}: {e}")
    if type(value) is not tp:
        return fail(f"{what}: {code!r} evaluates to {type(value).__name__}, wanted {tp.__name__}")
    if tp in (list, tuple, set):
        if not all(type(x) in ELEMENT_TYPES for x in value):
            return fail(f"{what}: element types of {code!r}")
    if tp is dict:
        if not all(type(k) is str and type(x) in ELEMENT_TYPES for k, x in value.items()):
            return fail(f"{what}: key/value types of {code!r}")
    return True
