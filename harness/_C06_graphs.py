"""F-graph: small control-flow graphs decoded from one selector per basic block, and a
definition-level control-dependence oracle (path search only; no dominator trees, no
networkx).  Shared by C06 and C07.

A block is one of
  exit            no successor (return / raise)
  jump t          one unlabelled successor
  cond t f        two successors labelled True / False, t != f
  fork t u        two unlabelled successors, t < u (what a TryBegin block looks like)
and, unless it is an exit block, may contain a ``YIELD_VALUE`` instruction (the real
code then wires it to EXIT).  Blocks are decoded *on demand* starting at block 0, so
every decoded graph satisfies the compiler guarantee "every block is reachable from
block 0" by construction and the selectors of unreachable blocks are never looked at.
The decoded shapes are turned into real ``bytecode`` basic blocks (``bytecode_blocks``) and
handed to the real ``CFG._create_nodes_and_edges`` etc. (``build_cfg``).
"""
from __future__ import annotations

from bytecode import Instr
from bytecode.cfg import BasicBlock


EXIT_K, JUMP_K, COND_K, FORK_K = 0, 1, 2, 3


def options(n: int, yields: bool, forks: bool = True):
    """All block shapes over ``n`` block indices: tuples (kind, succs, has_yield)."""
    out = [(EXIT_K, (), False)]
    ys = (False, True) if yields else (False,)
    for y in ys:
        for t in range(n):
            out.append((JUMP_K, (t,), y))
        for t in range(n):
            for f in range(n):
                if t != f:
                    out.append((COND_K, (t, f), y))
        if forks:
            for t in range(n):
                for u in range(t + 1, n):
                    out.append((FORK_K, (t, u), y))
    return tuple(out)


_OPTS = {}


def opts(n, yields, forks=True):
    key = (n, yields, forks)
    if key not in _OPTS:
        _OPTS[key] = options(n, yields, forks)
    return _OPTS[key]


def pick(seq, i):
    """``seq[i]`` for a symbolic selector (indices past the end select the last entry, as
    ``prelude.pick`` does), by bisection: ~log2(len) solver decisions instead of len."""
    lo, hi = 0, len(seq) - 1
    if i >= hi:
        return seq[hi]
    while hi - lo > 1:
        mid = (lo + hi) // 2
        if i < mid:
            hi = mid
        else:
            lo = mid
    return seq[lo]


def decode(table, sels):
    """Decode blocks reachable from block 0.  Returns {index: (kind, succs, yield)} in
    discovery order re-sorted by index (the real code enumerates blocks in order)."""
    spec = {}
    todo = [0]
    while todo:
        i = todo.pop()
        if i in spec:
            continue
        opt = pick(table, sels[i])
        spec[i] = opt
        for s in opt[1]:
            if s not in spec:
                todo.append(s)
    return {i: spec[i] for i in sorted(spec)}


# The True edge is the one taken when the predicate that pynguin traces for the jump holds: the
# value itself for POP_JUMP_IF_TRUE/FALSE, `x is not None` / `x is None` for the none-based jumps
# (both hold exactly when the jump is taken), "the iterator yields another item" for FOR_ITER.
_TRUE_JUMPS = ("POP_JUMP_IF_TRUE", "POP_JUMP_IF_NOT_NONE", "POP_JUMP_IF_NONE")  # jump target is the True successor
_FALSE_JUMPS = ("POP_JUMP_IF_FALSE", "FOR_ITER")  # jump target is the False successor


def bytecode_blocks(spec):
    """A ``bytecode.ControlFlowGraph`` whose blocks have the decoded shapes, in the form
    ``ControlFlowGraph.from_bytecode`` + ``CFG._split_try_begin_blocks`` deliver them: the jump
    is the last instruction, ``next_block`` is set iff the block can fall through, a TryBegin
    ends its block.  Opcode variants (5 conditional jumps, jump vs. fall-through, return vs.
    raise) rotate deterministically with the block data.  Indices missing from ``spec`` become
    blocks nobody jumps to (dead code)."""
    from bytecode.cfg import ControlFlowGraph
    from bytecode.instr import TryBegin

    g = ControlFlowGraph()
    top = max(spec)
    while len(g) <= top:
        g.add_block()
    blocks = list(g)
    for i in range(top + 1):
        b = blocks[i]
        if i not in spec:
            b.append(Instr("RETURN_CONST", None))
            continue
        kind, succs, has_yield = spec[i]
        b.append(Instr("NOP"))
        if has_yield:
            b.append(Instr("YIELD_VALUE", 1))
            b.append(Instr("RESUME", 1))
        if kind == EXIT_K:
            b.append(Instr("RETURN_CONST", None) if i % 2 == 0 else Instr("RAISE_VARARGS", 0))
        elif kind == JUMP_K:
            t = succs[0]
            v = (i + t) % 3
            if v == 0:
                b.next_block = blocks[t]
            else:
                b.append(Instr("JUMP_FORWARD" if v == 1 else "JUMP_BACKWARD", blocks[t]))
        elif kind == COND_K:
            t, f = succs
            v = (i + 2 * t + f) % 5
            b.append(Instr("LOAD_FAST", "x"))
            if v < 3:
                b.append(Instr(_TRUE_JUMPS[v], blocks[t]))
                b.next_block = blocks[f]
            else:
                b.append(Instr(_FALSE_JUMPS[v - 3], blocks[f]))
                b.next_block = blocks[t]
        else:
            t, u = succs
            b.append(TryBegin(blocks[u], False))
            b.next_block = blocks[t]
    return g


def build_cfg(spec):
    """The real CFG construction as in ``CFG.from_bytecode`` from ``_create_nodes_and_edges`` on."""
    from pynguin.instrumentation.controlflow import CFG, ArtificialNode, filter_dead_code_nodes

    blocks = bytecode_blocks(spec)
    cfg = CFG(blocks)
    edges, nodes = CFG._create_nodes_and_edges(blocks)
    CFG._create_graph(cfg, edges, nodes)
    CFG._insert_dummy_nodes(cfg)
    return filter_dead_code_nodes(cfg, ArtificialNode.ENTRY)


# ------------------------------------------------------------------------------ oracle
# Everything below works on plain Python data: nodes are the strings "AUG", "ENTRY",
# "EXIT" and block indices; an edge is (source, target, branch_value or None).

def key_of(node):
    """Plain key for a pynguin ProgramNode."""
    from pynguin.instrumentation.controlflow import ArtificialNode, BasicBlockNode

    if isinstance(node, BasicBlockNode):
        return node.index
    if node is ArtificialNode.ENTRY:
        return "ENTRY"
    if node is ArtificialNode.EXIT:
        return "EXIT"
    if node is ArtificialNode.AUGMENTED_ENTRY:
        return "AUG"
    raise AssertionError(f"unknown node {node!r}")


def plain_edges(graph):
    """(nodes, edges) of a pynguin ProgramGraph as plain data."""
    from pynguin.instrumentation.controlflow import EDGE_DATA_BRANCH_VALUE

    nodes = [key_of(n) for n in graph.graph.nodes]
    edges = [(key_of(a), key_of(b), d.get(EDGE_DATA_BRANCH_VALUE)) for a, b, d in graph.graph.edges(data=True)]
    return nodes, edges


def _succ_map(nodes, edges):
    succ = {n: [] for n in nodes}
    for a, b, _ in edges:
        if b not in succ[a]:
            succ[a].append(b)
    return succ


def reaches(succ, src, dst, avoid=None) -> bool:
    """Is there a path (possibly empty) from src to dst that does not touch ``avoid``?"""
    if src == avoid or dst == avoid:
        return False
    seen = {src}
    todo = [src]
    while todo:
        x = todo.pop()
        if x == dst:
            return True
        for y in succ[x]:
            if y != avoid and y not in seen:
                seen.add(y)
                todo.append(y)
    return False


def spec_input(spec):
    """(block ids, labelled input edges, yield blocks) of a decoded spec."""
    want = set()
    for i, (kind, succs, _y) in spec.items():
        if kind == COND_K:
            want.add((i, succs[0], True))
            want.add((i, succs[1], False))
        else:
            for s in succs:
                want.add((i, s, None))
    return sorted(spec), want, {i for i, s in spec.items() if s[2]}


def cfg_wellformed(blocks, in_edges, yields, nodes, edges, labels=True):
    """Structural claims of the property about the CFG, against the input it was built from
    (``in_edges``: block-to-block edges (i, j, label); with ``labels=False`` only (i, j) is
    compared).  Returns '' or a description of the first violated claim."""
    if sorted(nodes, key=str) != sorted(list(blocks) + ["ENTRY", "EXIT"], key=str):
        return f"node set {nodes} for blocks {blocks}"
    if len(set(nodes)) != len(nodes) or len(set(edges)) != len(edges):
        return "duplicate nodes/edges"
    succ = _succ_map(nodes, edges)
    # single artificial entry: no in-edge, exactly one out-edge, unlabelled, to block 0
    if any(b == "ENTRY" for _, b, _ in edges) or [e for e in edges if e[0] == "ENTRY"] != [("ENTRY", 0, None)]:
        return "ENTRY wiring"
    # single artificial exit: no out-edge, and it is the only node without out-edge;
    # ENTRY is the only node without in-edge
    sinks = [n for n in nodes if not succ[n]]
    if sinks != ["EXIT"]:
        return f"nodes without successor: {sinks}"
    sources = [n for n in nodes if not any(b == n for _, b, _ in edges)]
    if sources != ["ENTRY"]:
        return f"nodes without predecessor: {sources}"
    # block-to-block edges are exactly the input edges (with their labels)
    got = {e for e in edges if e[0] != "ENTRY" and e[1] != "EXIT"}
    want = set(in_edges)
    if not labels:
        got, want = {e[:2] for e in got}, {e[:2] for e in want}
    if got != want:
        return f"block edges {sorted(got, key=str)} != {sorted(want, key=str)}"
    # a node has labelled out-edges iff it is a branch node: exactly one True and one False edge
    for n in nodes:
        lab = sorted(str(v) for a, _, v in edges if a == n and v is not None)
        if lab and lab != ["False", "True"]:
            return f"branch labels of {n}: {lab}"
    # every block reachable from ENTRY, every block reaches EXIT
    for b in blocks:
        if not reaches(succ, "ENTRY", b):
            return f"{b} unreachable from ENTRY"
        if not reaches(succ, b, "EXIT"):
            return f"{b} does not reach EXIT"
    # EXIT edges: unlabelled; present for every block without successor and every yield block;
    # any other block wired to EXIT lies on a cycle and cannot reach a natural exit
    # (a block without successor or a yield block) -- the "infinite loop" rule.
    in_succ = {i: [] for i in blocks}
    for a, b, _ in in_edges:
        in_succ[a].append(b)
    natural = {i for i in blocks if not in_succ[i]} | set(yields)
    if any(b == "EXIT" and v is not None for _, b, v in edges):
        return "labelled EXIT edge"
    wired = {a for a, b, _ in edges if b == "EXIT"}
    if not natural <= wired:
        return f"natural exits {natural - wired} not wired to EXIT"
    for a in wired - natural:
        on_cycle = any(reaches(in_succ, s, a) for s in in_succ[a])
        escapes = any(reaches(in_succ, a, x) for x in natural)
        if not on_cycle or escapes:
            return f"block {a} wired to EXIT without being an inescapable loop"
    return ""


def augmented(nodes, edges):
    return list(nodes) + ["AUG"], list(edges) + [("AUG", "ENTRY", None), ("AUG", "EXIT", None)]


def postdominates(succ, b, s) -> bool:
    """b post-dominates s (reflexive): every path from s to EXIT contains b."""
    return b == s or not reaches(succ, s, "EXIT", avoid=b)


def oracle_cdg(nodes, edges):
    """Control-dependence edges by the definition: (A, B, v) iff B post-dominates the
    v-successor of A and B does not strictly post-dominate A -- on the augmented graph,
    then without ENTRY / EXIT."""
    anodes, aedges = augmented(nodes, edges)
    succ = _succ_map(anodes, aedges)
    out = set()
    for a, s, v in aedges:
        for b in anodes:
            if postdominates(succ, b, s) and not (b != a and postdominates(succ, b, a)):
                out.add((a, b, v))
    keep = [n for n in anodes if n not in ("ENTRY", "EXIT")]
    return keep, {e for e in out if e[0] in keep and e[1] in keep}


def _labelled(e) -> bool:
    return e[0] != "AUG" and e[2] is not None


def oracle_root(cdg_edges, n) -> bool:
    """n hangs below the augmented entry through unlabelled dependence edges only."""
    succ = {}
    for e in cdg_edges:
        if not _labelled(e):
            succ.setdefault(e[0], []).append(e[1])
    seen, todo = {"AUG"}, ["AUG"]
    while todo:
        x = todo.pop()
        for y in succ.get(x, ()):
            if y == n:
                return True
            if y not in seen:
                seen.add(y)
                todo.append(y)
    return False


def oracle_deps(cdg_edges, n):
    """Nearest labelled dependence edges above n: (A, v) such that A -v-> x0 and
    x0 -> ... -> n through unlabelled dependence edges (possibly none)."""
    pred = {}
    for e in cdg_edges:
        pred.setdefault(e[1], []).append(e)
    out = set()
    seen, todo = {n}, [n]
    while todo:
        x = todo.pop()
        for e in pred.get(x, ()):
            if _labelled(e):
                out.add((e[0], e[2]))
            elif e[0] not in seen:
                seen.add(e[0])
                todo.append(e[0])
    return out


def label_collisions(want):
    """(A, B) pairs that the definition connects under more than one outcome."""
    seen, out = set(), set()
    for a, b, _v in want:
        if (a, b) in seen:
            out.add((a, b))
        seen.add((a, b))
    return out


def check_cdg(cfg, cdg, nodes=None, edges=None, modulo_labels=False):
    """Compare the real CDG (and its two query methods) with the oracle computed over the
    same CFG.  Returns '' or a description of the first difference.

    ``modulo_labels``: the real graph is a simple digraph and can hold one label per (A, B);
    where the definition gives (A, B) under both outcomes, accept exactly one of them
    (everything else stays exact; the queries must then agree with the oracle's traversal of
    the *real* edge set and stay inside the definition's answer)."""
    from pynguin.instrumentation.controlflow import BasicBlockNode

    if nodes is None:
        nodes, edges = plain_edges(cfg)
    want_nodes, want = oracle_cdg(nodes, edges)
    got_nodes, got_edges = plain_edges(cdg)
    if sorted(got_nodes, key=str) != sorted(want_nodes, key=str):
        return f"cdg nodes {got_nodes} != {want_nodes}"
    got_set = set(got_edges)
    if len(got_edges) != len(got_set):
        return "duplicate cdg edges"
    if modulo_labels:
        coll = label_collisions(want)
        ok = got_set <= want and {e[:2] for e in got_set} == {e[:2] for e in want}
        ok = ok and {e for e in want if e[:2] not in coll} <= got_set
        ok = ok and len({e[:2] for e in got_set}) == len(got_set)
    else:
        ok = got_set == want
    if not ok:
        miss = sorted(want - got_set, key=str)
        extra = sorted(got_set - want, key=str)
        return f"cdg edges: missing {miss} unexpected {extra}"
    for node in cdg.graph.nodes:
        k = key_of(node)
        if k == "AUG":
            continue
        if cdg.is_control_dependent_on_root(node) is not oracle_root(want, k):
            return f"is_control_dependent_on_root({k}) = {cdg.is_control_dependent_on_root(node)}"
        deps = cdg.get_control_dependencies(node)
        got = [(d.node.index, d.branch_value) for d in deps]
        if not all(isinstance(d.node, BasicBlockNode) and isinstance(d.branch_value, bool) for d in deps):
            return f"get_control_dependencies({k}) malformed"
        wd = oracle_deps(want, k)
        if len(set(got)) != len(got):
            return f"get_control_dependencies({k}) has duplicates"
        if modulo_labels:
            ok = set(got) == oracle_deps(got_set, k) and set(got) <= wd and {a for a, _ in got} == {a for a, _ in wd}
        else:
            ok = set(got) == wd
        if not ok:
            return f"get_control_dependencies({k}) = {got} != {sorted(wd, key=str)}"
    return ""


def untraced(fn, *args):
    """Call ``fn`` with CrossHair's tracer switched off (no-op outside CrossHair).  Used for
    the part of a harness that runs on fully decoded, concrete data."""
    try:
        from crosshair.tracers import NoTracing, is_tracing
    except ImportError:
        return fn(*args)
    if not is_tracing():
        return fn(*args)
    with NoTracing():
        return fn(*args)


# ------------------------------------------------------------------------------ corpus
def code_objects(code, prefix=""):
    """All code objects nested in ``code`` (depth first), with a readable qualified name."""
    import types

    name = f"{prefix}{code.co_name}@{code.co_firstlineno}"
    yield name, code
    for const in code.co_consts:
        if isinstance(const, types.CodeType):
            yield from code_objects(const, name + ".")


def bytecode_input(blocks):
    """Independent reading of a ``bytecode.ControlFlowGraph``: (reachable block indices,
    block-to-block edges (i, j, None), yield blocks), using only the bytecode library's own
    instruction classification."""
    from bytecode.instr import Instr as _Instr
    from bytecode.instr import TryBegin

    index = {id(b): i for i, b in enumerate(blocks)}
    succ, yields = {}, set()
    for i, block in enumerate(blocks):
        out = []
        last = None
        for el in block:
            if isinstance(el, _Instr):
                last = el
                if el.name == "YIELD_VALUE":
                    yields.add(i)
        if last is None or not last.is_final():
            if block.next_block is not None:
                out.append(index[id(block.next_block)])
        if last is not None and last.has_jump():
            out.append(index[id(last.arg)])
        if len(block) and isinstance(block[-1], TryBegin):
            out.append(index[id(block[-1].target)])
        succ[i] = out
    live = {0}
    todo = [0]
    while todo:
        x = todo.pop()
        for y in succ[x]:
            if y not in live:
                live.add(y)
                todo.append(y)
    edges = {(i, j, None) for i in live for j in succ[i]}
    return sorted(live), edges, yields & live


def corpus_files():
    import glob
    import os

    root = os.path.dirname(os.path.dirname(os.path.abspath(__file__)))
    return sorted(glob.glob(os.path.join(root, "corpus", "C06_*.py")))


def corpus_codes():
    """(name, code object) for every code object of the corpus."""
    import os

    for path in corpus_files():
        with open(path) as f:
            module = compile(f.read(), path, "exec")
        yield from code_objects(module, os.path.basename(path)[:-3] + ":")


def cfg_of(code):
    """The CFG, built the way ``InstrumentationTransformer._instrument_code_recursive`` builds it."""
    from bytecode import Bytecode

    from pynguin.instrumentation import version
    from pynguin.instrumentation.controlflow import CFG

    return CFG.from_bytecode(version.add_for_loop_no_yield_nodes(Bytecode.from_code(code)))


def corpus_cfgs():
    for name, code in corpus_codes():
        yield name, cfg_of(code)


def _corpus_one(code, strict):
    """-> (message, has branch dependences, has label collision, #blocks, #cdg edges)"""
    from pynguin.instrumentation.controlflow import ControlDependenceGraph

    cfg = cfg_of(code)
    nodes, edges = plain_edges(cfg)
    blocks, in_edges, yields = bytecode_input(cfg.bytecode_cfg)
    msg = cfg_wellformed(blocks, in_edges, yields, nodes, edges, labels=False)
    if msg:
        return msg, False, False, len(blocks), 0
    # branch nodes: labelled out-edges exactly where the block ends in a conditional jump
    for node in cfg.basic_block_nodes:
        instrs = [i for i in node.basic_block if isinstance(i, Instr)]
        is_branch = bool(instrs) and (instrs[-1].is_cond_jump() or instrs[-1].name == "FOR_ITER")
        has_labels = any(a == node.index and v is not None for a, _, v in edges)
        if is_branch != has_labels:
            return f"block {node.index}: conditional jump {is_branch}, labelled edges {has_labels}", False, False, len(blocks), 0
    cdg = ControlDependenceGraph.compute(cfg)
    _, want = oracle_cdg(nodes, edges)
    msg = check_cdg(cfg, cdg, nodes, edges, modulo_labels=not strict)
    return msg, any(v is not None for _, _, v in want), bool(label_collisions(want)), len(blocks), len(want)


def corpus_check(strict: bool, only=None):
    """Decide every corpus code object; returns the ``Py`` obligation dict."""
    cases = nontrivial = collisions = 0
    bad = []
    samples = []
    for name, code in corpus_codes():
        if only is not None and only not in name:
            continue
        cases += 1
        try:
            msg, branchy, coll, nblocks, nedges = _corpus_one(code, strict)
        except Exception as e:  # noqa: BLE001
            msg, branchy, coll, nblocks, nedges = f"raised {type(e).__name__}: {e}", False, False, 0, 0
        nontrivial += branchy
        collisions += coll
        if len(samples) < 3 and nedges > 6:
            samples.append({"code": name, "blocks": nblocks, "cdg_edges": nedges})
        if msg:
            bad.append(f"{name}: {msg}")
    return {
        "ok": not bad and cases > 0,
        "cases": cases,
        "nontrivial": nontrivial,
        "detail": (f"{cases} code objects, {nontrivial} with branch dependences, {collisions} with an (A,B) pair "
                   f"dependent under both outcomes; " + ("; ".join(bad[:3]) if bad else "all agree with the oracle")),
        "samples": samples,
        "violation": {"code_objects": bad[:5]} if bad else None,
    }
